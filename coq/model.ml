
(** val negb : bool -> bool **)

let negb = function
| true -> false
| false -> true

type nat =
| O
| S of nat

(** val fst : ('a1 * 'a2) -> 'a1 **)

let fst = function
| (x, _) -> x

(** val snd : ('a1 * 'a2) -> 'a2 **)

let snd = function
| (_, y) -> y

(** val length : 'a1 list -> nat **)

let rec length = function
| [] -> O
| _ :: l' -> S (length l')

(** val app : 'a1 list -> 'a1 list -> 'a1 list **)

let rec app l m =
  match l with
  | [] -> m
  | a :: l1 -> a :: (app l1 m)

type comparison =
| Eq
| Lt
| Gt

(** val compOpp : comparison -> comparison **)

let compOpp = function
| Eq -> Eq
| Lt -> Gt
| Gt -> Lt

(** val pred : nat -> nat **)

let pred n = match n with
| O -> n
| S u -> u

module Coq__1 = struct
 (** val add : nat -> nat -> nat **)
 let rec add n m =
   match n with
   | O -> m
   | S p -> S (add p m)
end
include Coq__1

(** val eqb : bool -> bool -> bool **)

let eqb b1 b2 =
  if b1 then b2 else if b2 then false else true

module Nat =
 struct
  (** val eqb : nat -> nat -> bool **)

  let rec eqb n m =
    match n with
    | O -> (match m with
            | O -> true
            | S _ -> false)
    | S n' -> (match m with
               | O -> false
               | S m' -> eqb n' m')

  (** val leb : nat -> nat -> bool **)

  let rec leb n m =
    match n with
    | O -> true
    | S n' -> (match m with
               | O -> false
               | S m' -> leb n' m')

  (** val ltb : nat -> nat -> bool **)

  let ltb n m =
    leb (S n) m

  (** val max : nat -> nat -> nat **)

  let rec max n m =
    match n with
    | O -> m
    | S n' -> (match m with
               | O -> n
               | S m' -> S (max n' m'))
 end

(** val hd : 'a1 -> 'a1 list -> 'a1 **)

let hd default = function
| [] -> default
| x :: _ -> x

(** val tl : 'a1 list -> 'a1 list **)

let tl = function
| [] -> []
| _ :: m -> m

(** val nth : nat -> 'a1 list -> 'a1 -> 'a1 **)

let rec nth n l default =
  match n with
  | O -> (match l with
          | [] -> default
          | x :: _ -> x)
  | S m -> (match l with
            | [] -> default
            | _ :: t -> nth m t default)

(** val nth_error : 'a1 list -> nat -> 'a1 option **)

let rec nth_error l = function
| O -> (match l with
        | [] -> None
        | x :: _ -> Some x)
| S n0 -> (match l with
           | [] -> None
           | _ :: l0 -> nth_error l0 n0)

(** val rev : 'a1 list -> 'a1 list **)

let rec rev = function
| [] -> []
| x :: l' -> app (rev l') (x :: [])

(** val concat : 'a1 list list -> 'a1 list **)

let rec concat = function
| [] -> []
| x :: l0 -> app x (concat l0)

(** val map : ('a1 -> 'a2) -> 'a1 list -> 'a2 list **)

let rec map f = function
| [] -> []
| a :: t -> (f a) :: (map f t)

(** val flat_map : ('a1 -> 'a2 list) -> 'a1 list -> 'a2 list **)

let rec flat_map f = function
| [] -> []
| x :: t -> app (f x) (flat_map f t)

(** val fold_left : ('a1 -> 'a2 -> 'a1) -> 'a2 list -> 'a1 -> 'a1 **)

let rec fold_left f l a0 =
  match l with
  | [] -> a0
  | b :: t -> fold_left f t (f a0 b)

(** val fold_right : ('a2 -> 'a1 -> 'a1) -> 'a1 -> 'a2 list -> 'a1 **)

let rec fold_right f a0 = function
| [] -> a0
| b :: t -> f b (fold_right f a0 t)

(** val existsb : ('a1 -> bool) -> 'a1 list -> bool **)

let rec existsb f = function
| [] -> false
| a :: l0 -> (||) (f a) (existsb f l0)

(** val forallb : ('a1 -> bool) -> 'a1 list -> bool **)

let rec forallb f = function
| [] -> true
| a :: l0 -> (&&) (f a) (forallb f l0)

(** val filter : ('a1 -> bool) -> 'a1 list -> 'a1 list **)

let rec filter f = function
| [] -> []
| x :: l0 -> if f x then x :: (filter f l0) else filter f l0

(** val firstn : nat -> 'a1 list -> 'a1 list **)

let rec firstn n l =
  match n with
  | O -> []
  | S n0 -> (match l with
             | [] -> []
             | a :: l0 -> a :: (firstn n0 l0))

(** val skipn : nat -> 'a1 list -> 'a1 list **)

let rec skipn n l =
  match n with
  | O -> l
  | S n0 -> (match l with
             | [] -> []
             | _ :: l0 -> skipn n0 l0)

(** val repeat : 'a1 -> nat -> 'a1 list **)

let rec repeat x = function
| O -> []
| S k -> x :: (repeat x k)

type positive =
| XI of positive
| XO of positive
| XH

type z =
| Z0
| Zpos of positive
| Zneg of positive

module Pos =
 struct
  (** val succ : positive -> positive **)

  let rec succ = function
  | XI p -> XO (succ p)
  | XO p -> XI p
  | XH -> XO XH

  (** val add : positive -> positive -> positive **)

  let rec add x y =
    match x with
    | XI p ->
      (match y with
       | XI q -> XO (add_carry p q)
       | XO q -> XI (add p q)
       | XH -> XO (succ p))
    | XO p ->
      (match y with
       | XI q -> XI (add p q)
       | XO q -> XO (add p q)
       | XH -> XI p)
    | XH -> (match y with
             | XI q -> XO (succ q)
             | XO q -> XI q
             | XH -> XO XH)

  (** val add_carry : positive -> positive -> positive **)

  and add_carry x y =
    match x with
    | XI p ->
      (match y with
       | XI q -> XI (add_carry p q)
       | XO q -> XO (add_carry p q)
       | XH -> XI (succ p))
    | XO p ->
      (match y with
       | XI q -> XO (add_carry p q)
       | XO q -> XI (add p q)
       | XH -> XO (succ p))
    | XH ->
      (match y with
       | XI q -> XI (succ q)
       | XO q -> XO (succ q)
       | XH -> XI XH)

  (** val pred_double : positive -> positive **)

  let rec pred_double = function
  | XI p -> XI (XO p)
  | XO p -> XI (pred_double p)
  | XH -> XH

  (** val mul : positive -> positive -> positive **)

  let rec mul x y =
    match x with
    | XI p -> add y (XO (mul p y))
    | XO p -> XO (mul p y)
    | XH -> y

  (** val iter : ('a1 -> 'a1) -> 'a1 -> positive -> 'a1 **)

  let rec iter f x = function
  | XI n' -> f (iter f (iter f x n') n')
  | XO n' -> iter f (iter f x n') n'
  | XH -> f x

  (** val size : positive -> positive **)

  let rec size = function
  | XI p0 -> succ (size p0)
  | XO p0 -> succ (size p0)
  | XH -> XH

  (** val compare_cont : comparison -> positive -> positive -> comparison **)

  let rec compare_cont r x y =
    match x with
    | XI p ->
      (match y with
       | XI q -> compare_cont r p q
       | XO q -> compare_cont Gt p q
       | XH -> Gt)
    | XO p ->
      (match y with
       | XI q -> compare_cont Lt p q
       | XO q -> compare_cont r p q
       | XH -> Gt)
    | XH -> (match y with
             | XH -> r
             | _ -> Lt)

  (** val compare : positive -> positive -> comparison **)

  let compare =
    compare_cont Eq

  (** val eqb : positive -> positive -> bool **)

  let rec eqb p q =
    match p with
    | XI p0 -> (match q with
                | XI q0 -> eqb p0 q0
                | _ -> false)
    | XO p0 -> (match q with
                | XO q0 -> eqb p0 q0
                | _ -> false)
    | XH -> (match q with
             | XH -> true
             | _ -> false)

  (** val iter_op : ('a1 -> 'a1 -> 'a1) -> positive -> 'a1 -> 'a1 **)

  let rec iter_op op p a =
    match p with
    | XI p0 -> op a (iter_op op p0 (op a a))
    | XO p0 -> iter_op op p0 (op a a)
    | XH -> a

  (** val to_nat : positive -> nat **)

  let to_nat x =
    iter_op Coq__1.add x (S O)

  (** val of_succ_nat : nat -> positive **)

  let rec of_succ_nat = function
  | O -> XH
  | S x -> succ (of_succ_nat x)
 end

module Z =
 struct
  (** val double : z -> z **)

  let double = function
  | Z0 -> Z0
  | Zpos p -> Zpos (XO p)
  | Zneg p -> Zneg (XO p)

  (** val succ_double : z -> z **)

  let succ_double = function
  | Z0 -> Zpos XH
  | Zpos p -> Zpos (XI p)
  | Zneg p -> Zneg (Pos.pred_double p)

  (** val pred_double : z -> z **)

  let pred_double = function
  | Z0 -> Zneg XH
  | Zpos p -> Zpos (Pos.pred_double p)
  | Zneg p -> Zneg (XI p)

  (** val pos_sub : positive -> positive -> z **)

  let rec pos_sub x y =
    match x with
    | XI p ->
      (match y with
       | XI q -> double (pos_sub p q)
       | XO q -> succ_double (pos_sub p q)
       | XH -> Zpos (XO p))
    | XO p ->
      (match y with
       | XI q -> pred_double (pos_sub p q)
       | XO q -> double (pos_sub p q)
       | XH -> Zpos (Pos.pred_double p))
    | XH ->
      (match y with
       | XI q -> Zneg (XO q)
       | XO q -> Zneg (Pos.pred_double q)
       | XH -> Z0)

  (** val add : z -> z -> z **)

  let add x y =
    match x with
    | Z0 -> y
    | Zpos x' ->
      (match y with
       | Z0 -> x
       | Zpos y' -> Zpos (Pos.add x' y')
       | Zneg y' -> pos_sub x' y')
    | Zneg x' ->
      (match y with
       | Z0 -> x
       | Zpos y' -> pos_sub y' x'
       | Zneg y' -> Zneg (Pos.add x' y'))

  (** val opp : z -> z **)

  let opp = function
  | Z0 -> Z0
  | Zpos x0 -> Zneg x0
  | Zneg x0 -> Zpos x0

  (** val succ : z -> z **)

  let succ x =
    add x (Zpos XH)

  (** val pred : z -> z **)

  let pred x =
    add x (Zneg XH)

  (** val sub : z -> z -> z **)

  let sub m n =
    add m (opp n)

  (** val mul : z -> z -> z **)

  let mul x y =
    match x with
    | Z0 -> Z0
    | Zpos x' ->
      (match y with
       | Z0 -> Z0
       | Zpos y' -> Zpos (Pos.mul x' y')
       | Zneg y' -> Zneg (Pos.mul x' y'))
    | Zneg x' ->
      (match y with
       | Z0 -> Z0
       | Zpos y' -> Zneg (Pos.mul x' y')
       | Zneg y' -> Zpos (Pos.mul x' y'))

  (** val pow_pos : z -> positive -> z **)

  let pow_pos z0 =
    Pos.iter (mul z0) (Zpos XH)

  (** val pow : z -> z -> z **)

  let pow x = function
  | Z0 -> Zpos XH
  | Zpos p -> pow_pos x p
  | Zneg _ -> Z0

  (** val compare : z -> z -> comparison **)

  let compare x y =
    match x with
    | Z0 -> (match y with
             | Z0 -> Eq
             | Zpos _ -> Lt
             | Zneg _ -> Gt)
    | Zpos x' -> (match y with
                  | Zpos y' -> Pos.compare x' y'
                  | _ -> Gt)
    | Zneg x' ->
      (match y with
       | Zneg y' -> compOpp (Pos.compare x' y')
       | _ -> Lt)

  (** val leb : z -> z -> bool **)

  let leb x y =
    match compare x y with
    | Gt -> false
    | _ -> true

  (** val ltb : z -> z -> bool **)

  let ltb x y =
    match compare x y with
    | Lt -> true
    | _ -> false

  (** val eqb : z -> z -> bool **)

  let eqb x y =
    match x with
    | Z0 -> (match y with
             | Z0 -> true
             | _ -> false)
    | Zpos p -> (match y with
                 | Zpos q -> Pos.eqb p q
                 | _ -> false)
    | Zneg p -> (match y with
                 | Zneg q -> Pos.eqb p q
                 | _ -> false)

  (** val to_nat : z -> nat **)

  let to_nat = function
  | Zpos p -> Pos.to_nat p
  | _ -> O

  (** val of_nat : nat -> z **)

  let of_nat = function
  | O -> Z0
  | S n0 -> Zpos (Pos.of_succ_nat n0)

  (** val pos_div_eucl : positive -> z -> z * z **)

  let rec pos_div_eucl a b =
    match a with
    | XI a' ->
      let (q, r) = pos_div_eucl a' b in
      let r' = add (mul (Zpos (XO XH)) r) (Zpos XH) in
      if ltb r' b
      then ((mul (Zpos (XO XH)) q), r')
      else ((add (mul (Zpos (XO XH)) q) (Zpos XH)), (sub r' b))
    | XO a' ->
      let (q, r) = pos_div_eucl a' b in
      let r' = mul (Zpos (XO XH)) r in
      if ltb r' b
      then ((mul (Zpos (XO XH)) q), r')
      else ((add (mul (Zpos (XO XH)) q) (Zpos XH)), (sub r' b))
    | XH -> if leb (Zpos (XO XH)) b then (Z0, (Zpos XH)) else ((Zpos XH), Z0)

  (** val div_eucl : z -> z -> z * z **)

  let div_eucl a b =
    match a with
    | Z0 -> (Z0, Z0)
    | Zpos a' ->
      (match b with
       | Z0 -> (Z0, a)
       | Zpos _ -> pos_div_eucl a' b
       | Zneg b' ->
         let (q, r) = pos_div_eucl a' (Zpos b') in
         (match r with
          | Z0 -> ((opp q), Z0)
          | _ -> ((opp (add q (Zpos XH))), (add b r))))
    | Zneg a' ->
      (match b with
       | Z0 -> (Z0, a)
       | Zpos _ ->
         let (q, r) = pos_div_eucl a' b in
         (match r with
          | Z0 -> ((opp q), Z0)
          | _ -> ((opp (add q (Zpos XH))), (sub b r)))
       | Zneg b' -> let (q, r) = pos_div_eucl a' (Zpos b') in (q, (opp r)))

  (** val div : z -> z -> z **)

  let div a b =
    let (q, _) = div_eucl a b in q

  (** val modulo : z -> z -> z **)

  let modulo a b =
    let (_, r) = div_eucl a b in r

  (** val log2 : z -> z **)

  let log2 = function
  | Zpos p0 ->
    (match p0 with
     | XI p -> Zpos (Pos.size p)
     | XO p -> Zpos (Pos.size p)
     | XH -> Z0)
  | _ -> Z0

  (** val log2_up : z -> z **)

  let log2_up a =
    match compare (Zpos XH) a with
    | Lt -> succ (log2 (pred a))
    | _ -> Z0
 end

type ascii =
| Ascii of bool * bool * bool * bool * bool * bool * bool * bool

(** val eqb0 : ascii -> ascii -> bool **)

let eqb0 a b =
  let Ascii (a0, a1, a2, a3, a4, a5, a6, a7) = a in
  let Ascii (b0, b1, b2, b3, b4, b5, b6, b7) = b in
  if if if if if if if eqb a0 b0 then eqb a1 b1 else false
                 then eqb a2 b2
                 else false
              then eqb a3 b3
              else false
           then eqb a4 b4
           else false
        then eqb a5 b5
        else false
     then eqb a6 b6
     else false
  then eqb a7 b7
  else false

type string =
| EmptyString
| String of ascii * string

(** val eqb1 : string -> string -> bool **)

let rec eqb1 s1 s2 =
  match s1 with
  | EmptyString ->
    (match s2 with
     | EmptyString -> true
     | String (_, _) -> false)
  | String (c1, s1') ->
    (match s2 with
     | EmptyString -> false
     | String (c2, s2') -> if eqb0 c1 c2 then eqb1 s1' s2' else false)

(** val lex_compare : z list -> z list -> comparison **)

let rec lex_compare a b =
  match a with
  | [] -> (match b with
           | [] -> Eq
           | _ :: _ -> Lt)
  | x :: a' ->
    (match b with
     | [] -> Gt
     | y :: b' ->
       (match Z.compare x y with
        | Eq -> lex_compare a' b'
        | x0 -> x0))

(** val lex_ltb : z list -> z list -> bool **)

let lex_ltb a b =
  match lex_compare a b with
  | Lt -> true
  | _ -> false

(** val lex_leb : z list -> z list -> bool **)

let lex_leb a b =
  match lex_compare a b with
  | Gt -> false
  | _ -> true

(** val lex_eqb : z list -> z list -> bool **)

let lex_eqb a b =
  match lex_compare a b with
  | Eq -> true
  | _ -> false

(** val be_bytes : nat -> z -> z list **)

let rec be_bytes n v =
  match n with
  | O -> []
  | S n' ->
    (Z.modulo
      (Z.div v
        (Z.pow (Zpos (XO (XO (XO (XO (XO (XO (XO (XO XH)))))))))
          (Z.of_nat n'))) (Zpos (XO (XO (XO (XO (XO (XO (XO (XO XH)))))))))) :: 
      (be_bytes n' v)

(** val be_value : z list -> z **)

let rec be_value = function
| [] -> Z0
| b :: l' ->
  Z.add
    (Z.mul b
      (Z.pow (Zpos (XO (XO (XO (XO (XO (XO (XO (XO XH)))))))))
        (Z.of_nat (length l')))) (be_value l')

type ffmt = { fw : z; fm : z }

(** val f32 : ffmt **)

let f32 =
  { fw = (Zpos (XO (XO (XO (XO (XO XH)))))); fm = (Zpos (XI (XI (XI (XO
    XH))))) }

(** val f64 : ffmt **)

let f64 =
  { fw = (Zpos (XO (XO (XO (XO (XO (XO XH))))))); fm = (Zpos (XO (XO (XI (XO
    (XI XH)))))) }

(** val fbytes : ffmt -> nat **)

let fbytes f =
  Z.to_nat (Z.div f.fw (Zpos (XO (XO (XO XH)))))

(** val fmsb : ffmt -> z **)

let fmsb f =
  Z.pow (Zpos (XO XH)) (Z.sub f.fw (Zpos XH))

(** val fmax : ffmt -> z **)

let fmax f =
  Z.sub (Z.pow (Zpos (XO XH)) f.fw) (Zpos XH)

(** val finf : ffmt -> z **)

let finf f =
  Z.mul
    (Z.sub (Z.pow (Zpos (XO XH)) (Z.sub (Z.sub f.fw (Zpos XH)) f.fm)) (Zpos
      XH)) (Z.pow (Zpos (XO XH)) f.fm)

(** val fqnan : ffmt -> z **)

let fqnan f =
  Z.add (finf f) (Z.pow (Zpos (XO XH)) (Z.sub f.fm (Zpos XH)))

(** val fmag : ffmt -> z -> z **)

let fmag f x =
  Z.modulo x (fmsb f)

(** val fneg : ffmt -> z -> bool **)

let fneg f x =
  Z.leb (fmsb f) x

(** val f_is_nan : ffmt -> z -> bool **)

let f_is_nan f x =
  Z.ltb (finf f) (fmag f x)

(** val f_is_inf : ffmt -> z -> bool **)

let f_is_inf f x =
  Z.eqb (fmag f x) (finf f)

(** val half : nat -> z **)

let half n =
  Z.div
    (Z.pow (Zpos (XO (XO (XO (XO (XO (XO (XO (XO XH))))))))) (Z.of_nat n))
    (Zpos (XO XH))

(** val enc_uint : nat -> z -> z list **)

let enc_uint =
  be_bytes

(** val enc_int : nat -> z -> z list **)

let enc_int n v =
  be_bytes n (Z.add v (half n))

(** val dec_uint : z list -> z **)

let dec_uint =
  be_value

(** val dec_int : z list -> z **)

let dec_int l =
  Z.sub (be_value l) (half (length l))

(** val enc_float_word : ffmt -> z -> z **)

let enc_float_word f x =
  if f_is_nan f x
  then fmax f
  else if f_is_inf f x
       then if fneg f x then Z0 else Z.sub (fmax f) (Zpos XH)
       else if fneg f x then Z.sub (fmax f) x else Z.add x (fmsb f)

(** val dec_float_word : ffmt -> z -> z **)

let dec_float_word f u =
  if Z.eqb u (fmax f)
  then fqnan f
  else if Z.eqb u (Z.sub (fmax f) (Zpos XH))
       then finf f
       else if Z.eqb u Z0
            then Z.add (fmsb f) (finf f)
            else if Z.leb (fmsb f) u
                 then Z.sub u (fmsb f)
                 else Z.sub (fmax f) u

(** val enc_float : ffmt -> z -> z list **)

let enc_float f x =
  be_bytes (fbytes f) (enc_float_word f x)

(** val dec_float : ffmt -> z list -> z **)

let dec_float f l =
  dec_float_word f (be_value l)

(** val fcanon : ffmt -> z -> z **)

let fcanon f x =
  if f_is_nan f x then fqnan f else x

(** val maxlen : z **)

let maxlen =
  Z.sub
    (Z.sub (Zpos (XI (XI (XI (XI (XI (XI (XI (XI (XI (XI (XI (XI (XI (XI (XI
      XH)))))))))))))))) (Zpos XH)) (Zpos (XO XH))

(** val strip_trailing_zeros : z list -> z list **)

let rec strip_trailing_zeros = function
| [] -> []
| x :: t' ->
  (match strip_trailing_zeros t' with
   | [] -> if Z.eqb x Z0 then [] else x :: []
   | z0 :: l -> x :: (z0 :: l))

(** val text_norm : z list -> z list **)

let text_norm t =
  strip_trailing_zeros (firstn (Z.to_nat maxlen) t)

(** val enc_text : z list -> z list **)

let enc_text t =
  let s = text_norm t in
  app s
    (app (Z0 :: []) (be_bytes (S (S O)) (Z.sub maxlen (Z.of_nat (length s)))))

type cty =
| TU of nat
| TI of nat
| TF of ffmt
| TText

type comp =
| CU of nat * z
| CI of nat * z
| CF of ffmt * z
| CText of z list

(** val ty_of : comp -> cty **)

let ty_of = function
| CU (n, _) -> TU n
| CI (n, _) -> TI n
| CF (f, _) -> TF f
| CText _ -> TText

(** val enc_comp : comp -> z list **)

let enc_comp = function
| CU (n, v) -> enc_uint n v
| CI (n, v) -> enc_int n v
| CF (f, x) -> enc_float f x
| CText t -> enc_text t

(** val enc_tuple : comp list -> z list **)

let enc_tuple cs =
  concat (map enc_comp cs)

(** val comp_canon : comp -> comp **)

let comp_canon c = match c with
| CF (f, x) -> CF (f, (fcanon f x))
| CText t -> CText (text_norm t)
| _ -> c

(** val ty_width : cty -> nat option **)

let ty_width = function
| TU n -> Some n
| TI n -> Some n
| TF f -> Some (fbytes f)
| TText -> None

(** val take : nat -> z list -> (z list * z list) option **)

let take n l =
  if Nat.leb n (length l) then Some ((firstn n l), (skipn n l)) else None

(** val dec_comp : cty -> z list -> (comp * z list) option **)

let dec_comp t l =
  match t with
  | TU n ->
    (match take n l with
     | Some p -> let (h, r) = p in Some ((CU (n, (dec_uint h))), r)
     | None -> None)
  | TI n ->
    (match take n l with
     | Some p -> let (h, r) = p in Some ((CI (n, (dec_int h))), r)
     | None -> None)
  | TF f ->
    (match take (fbytes f) l with
     | Some p -> let (h, r) = p in Some ((CF (f, (dec_float f h))), r)
     | None -> None)
  | TText -> None

(** val decode_seq : cty list -> z list -> comp list option **)

let rec decode_seq ts l =
  match ts with
  | [] -> Some []
  | t :: ts' ->
    (match dec_comp t l with
     | Some p ->
       let (c, r) = p in
       (match decode_seq ts' r with
        | Some cs -> Some (c :: cs)
        | None -> None)
     | None -> None)

type encst = { e_buf : z list; e_cap : z }

(** val enc_init : encst **)

let enc_init =
  { e_buf = []; e_cap = (Zpos (XO (XO (XO (XO (XO (XO (XO (XO XH))))))))) }

(** val bit_ceil : z -> z **)

let bit_ceil n =
  if Z.leb n (Zpos XH) then Zpos XH else Z.pow (Zpos (XO XH)) (Z.log2_up n)

(** val ensure_available : encst -> z -> encst **)

let ensure_available s req =
  let need = Z.add (Z.of_nat (length s.e_buf)) req in
  if Z.ltb s.e_cap need
  then { e_buf = s.e_buf; e_cap = (bit_ceil need) }
  else s

(** val append : encst -> z list -> encst **)

let append s bs =
  let s0 = ensure_available s (Z.of_nat (length bs)) in
  { e_buf = (app s0.e_buf bs); e_cap = s0.e_cap }

type eop =
| EReset
| EEnc of comp

(** val enc_step : encst -> eop -> encst **)

let enc_step s = function
| EReset -> { e_buf = []; e_cap = s.e_cap }
| EEnc c ->
  (match c with
   | CText t ->
     let n = text_norm t in
     let s0 = ensure_available s (Z.add (Z.of_nat (length n)) (Zpos (XI XH)))
     in
     let s1 = append s0 n in
     let s2 = append s1 (Z0 :: []) in
     append s2 (be_bytes (S (S O)) (Z.sub maxlen (Z.of_nat (length n))))
   | _ -> append s (enc_comp c))

(** val enc_run : encst -> eop list -> encst **)

let enc_run s ops =
  fold_left enc_step ops s

type cls =
| C4
| C16
| C48
| C256

type node =
| Leaf of z * z list * z list
| Inode of cls * z list * (z * node) list

(** val cap : cls -> nat **)

let cap = function
| C4 -> S (S (S (S O)))
| C16 -> S (S (S (S (S (S (S (S (S (S (S (S (S (S (S (S O)))))))))))))))
| C48 ->
  S (S (S (S (S (S (S (S (S (S (S (S (S (S (S (S (S (S (S (S (S (S (S (S (S
    (S (S (S (S (S (S (S (S (S (S (S (S (S (S (S (S (S (S (S (S (S (S (S
    O)))))))))))))))))))))))))))))))))))))))))))))))
| C256 ->
  S (S (S (S (S (S (S (S (S (S (S (S (S (S (S (S (S (S (S (S (S (S (S (S (S
    (S (S (S (S (S (S (S (S (S (S (S (S (S (S (S (S (S (S (S (S (S (S (S (S
    (S (S (S (S (S (S (S (S (S (S (S (S (S (S (S (S (S (S (S (S (S (S (S (S
    (S (S (S (S (S (S (S (S (S (S (S (S (S (S (S (S (S (S (S (S (S (S (S (S
    (S (S (S (S (S (S (S (S (S (S (S (S (S (S (S (S (S (S (S (S (S (S (S (S
    (S (S (S (S (S (S (S (S (S (S (S (S (S (S (S (S (S (S (S (S (S (S (S (S
    (S (S (S (S (S (S (S (S (S (S (S (S (S (S (S (S (S (S (S (S (S (S (S (S
    (S (S (S (S (S (S (S (S (S (S (S (S (S (S (S (S (S (S (S (S (S (S (S (S
    (S (S (S (S (S (S (S (S (S (S (S (S (S (S (S (S (S (S (S (S (S (S (S (S
    (S (S (S (S (S (S (S (S (S (S (S (S (S (S (S (S (S (S (S (S (S (S (S (S
    (S (S (S (S (S (S (S (S (S (S (S (S (S (S (S
    O)))))))))))))))))))))))))))))))))))))))))))))))))))))))))))))))))))))))))))))))))))))))))))))))))))))))))))))))))))))))))))))))))))))))))))))))))))))))))))))))))))))))))))))))))))))))))))))))))))))))))))))))))))))))))))))))))))))))))))))))))))))))))))))))

(** val min_size : cls -> nat **)

let min_size = function
| C4 -> S (S O)
| C16 -> S (S (S (S (S O))))
| C48 -> S (S (S (S (S (S (S (S (S (S (S (S (S (S (S (S (S O))))))))))))))))
| C256 ->
  S (S (S (S (S (S (S (S (S (S (S (S (S (S (S (S (S (S (S (S (S (S (S (S (S
    (S (S (S (S (S (S (S (S (S (S (S (S (S (S (S (S (S (S (S (S (S (S (S (S
    O))))))))))))))))))))))))))))))))))))))))))))))))

(** val larger : cls -> cls **)

let larger = function
| C4 -> C16
| C16 -> C48
| _ -> C256

(** val smaller : cls -> cls **)

let smaller = function
| C48 -> C16
| C256 -> C48
| _ -> C4

(** val cls_eqb : cls -> cls -> bool **)

let cls_eqb a b =
  match a with
  | C4 -> (match b with
           | C4 -> true
           | _ -> false)
  | C16 -> (match b with
            | C16 -> true
            | _ -> false)
  | C48 -> (match b with
            | C48 -> true
            | _ -> false)
  | C256 -> (match b with
             | C256 -> true
             | _ -> false)

(** val prefix_capacity : nat **)

let prefix_capacity =
  S (S (S (S (S (S (S O))))))

type err =
| Oob
| OutOfFuel
| Malformed

type 'a res =
| Ok of 'a
| Err of err

(** val bind : 'a1 res -> ('a1 -> 'a2 res) -> 'a2 res **)

let bind r f =
  match r with
  | Ok a -> f a
  | Err e -> Err e

(** val byte_at : z list -> nat -> z res **)

let byte_at k i =
  match nth_error k i with
  | Some b -> Ok b
  | None -> Err Oob

(** val common_pad : nat -> z list -> z list -> nat **)

let rec common_pad n a b =
  match n with
  | O -> O
  | S n' ->
    if Z.eqb (hd Z0 a) (hd Z0 b) then S (common_pad n' (tl a) (tl b)) else O

(** val shared_len : z list -> z list -> nat **)

let shared_len p rem =
  common_pad (length p) p rem

(** val pad8 : z list -> z list **)

let pad8 l =
  app l (repeat Z0 (S (S (S (S (S (S (S (S O)))))))))

(** val find_child : (z * node) list -> z -> nat -> (nat * node) option **)

let rec find_child ch b i =
  match ch with
  | [] -> None
  | p :: ch' ->
    let (x, c) = p in
    if Z.eqb x b then Some (i, c) else find_child ch' b (S i)

(** val count_le : (z * node) list -> z -> nat **)

let rec count_le ch b =
  match ch with
  | [] -> O
  | p :: ch' ->
    let (x, _) = p in if Z.leb x b then S (count_le ch' b) else count_le ch' b

(** val first_ge : (z * node) list -> z -> nat **)

let rec first_ge ch b =
  match ch with
  | [] -> O
  | p :: ch' -> let (x, _) = p in if Z.leb b x then O else S (first_ge ch' b)

(** val insert_pos : cls -> (z * node) list -> z -> nat **)

let insert_pos c ch b =
  match c with
  | C4 -> count_le ch b
  | _ -> first_ge ch b

(** val insert_at : nat -> 'a1 -> 'a1 list -> 'a1 list **)

let rec insert_at i x l =
  match i with
  | O -> x :: l
  | S i' -> (match l with
             | [] -> x :: []
             | y :: l' -> y :: (insert_at i' x l'))

(** val remove_nth : nat -> 'a1 list -> 'a1 list **)

let rec remove_nth i l =
  match i with
  | O -> (match l with
          | [] -> []
          | _ :: l' -> l')
  | S i' -> (match l with
             | [] -> []
             | y :: l' -> y :: (remove_nth i' l'))

(** val replace_nth : nat -> 'a1 -> 'a1 list -> 'a1 list **)

let rec replace_nth i x l =
  match i with
  | O -> (match l with
          | [] -> []
          | _ :: l' -> x :: l')
  | S i' -> (match l with
             | [] -> []
             | y :: l' -> y :: (replace_nth i' x l'))

(** val two_children : z -> node -> z -> node -> (z * node) list **)

let two_children b1 c1 b2 c2 =
  if Z.ltb b1 b2
  then (b1, c1) :: ((b2, c2) :: [])
  else (b2, c2) :: ((b1, c1) :: [])

(** val get_go : nat -> node -> z list -> nat -> (z * z list) option res **)

let rec get_go fuel n k depth =
  match fuel with
  | O -> Err OutOfFuel
  | S f ->
    (match n with
     | Leaf (id, lk, v) ->
       Ok (match lex_compare k lk with
           | Eq -> Some (id, v)
           | _ -> None)
     | Inode (_, p, ch) ->
       if Nat.ltb (length k) depth
       then Err Oob
       else let rem = skipn depth k in
            if Nat.ltb (shared_len p rem) (length p)
            then Ok None
            else let d = add depth (length p) in
                 bind (byte_at k d) (fun b ->
                   match find_child ch b O with
                   | Some p0 -> let (_, c') = p0 in get_go f c' k (S d)
                   | None -> Ok None))

type ev =
| ENone
| ERootLeaf
| ELeafSplit
| EPrefixSplit
| EAdd of cls
| EGrow of cls
| ERemoveLeaf of cls
| EShrink of cls
| ERemoveRoot

(** val insert_go :
    nat -> node -> z list -> z list -> z -> nat -> (node * ev) option res **)

let rec insert_go fuel n k v id depth =
  match fuel with
  | O -> Err OutOfFuel
  | S f ->
    (match n with
     | Leaf (lid, lk, lv) ->
       (match lex_compare k lk with
        | Eq -> Ok None
        | _ ->
          if Nat.ltb (length k) depth
          then Err Oob
          else if Nat.ltb (length lk) depth
               then Err Oob
               else let rem = skipn depth k in
                    let k1rem = skipn depth lk in
                    let n' = common_pad prefix_capacity k1rem rem in
                    let pre = firstn n' (pad8 k1rem) in
                    bind (byte_at lk (add n' depth)) (fun b1 ->
                      bind (byte_at rem n') (fun b2 -> Ok (Some ((Inode (C4,
                        pre,
                        (two_children b1 (Leaf (lid, lk, lv)) b2 (Leaf (id,
                          k, v))))), ELeafSplit)))))
     | Inode (c, p, ch) ->
       if Nat.ltb (length k) depth
       then Err Oob
       else let rem = skipn depth k in
            let sl = shared_len p rem in
            if Nat.ltb sl (length p)
            then bind (byte_at p sl) (fun sb ->
                   bind (byte_at k (add depth sl)) (fun nb -> Ok (Some
                     ((Inode (C4, (firstn sl p),
                     (two_children sb (Inode (c, (skipn (S sl) p), ch)) nb
                       (Leaf (id, k, v))))), EPrefixSplit))))
            else let d = add depth (length p) in
                 bind (byte_at k d) (fun b ->
                   match find_child ch b O with
                   | Some p0 ->
                     let (i, c') = p0 in
                     bind (insert_go f c' k v id (S d)) (fun r ->
                       match r with
                       | Some p1 ->
                         let (c'', e) = p1 in
                         Ok (Some ((Inode (c, p,
                         (replace_nth i (b, c'') ch))), e))
                       | None -> Ok None)
                   | None ->
                     let pos = insert_pos c ch b in
                     if cls_eqb c C256
                     then Ok (Some ((Inode (c, p,
                            (insert_at pos (b, (Leaf (id, k, v))) ch))),
                            (EAdd c)))
                     else if Nat.eqb (length ch) (cap c)
                          then Ok (Some ((Inode ((larger c), p,
                                 (insert_at pos (b, (Leaf (id, k, v))) ch))),
                                 (EGrow (larger c))))
                          else Ok (Some ((Inode (c, p,
                                 (insert_at pos (b, (Leaf (id, k, v))) ch))),
                                 (EAdd c)))))

(** val prepend_prefix : z list -> z -> node -> node **)

let prepend_prefix p1 b n = match n with
| Leaf (_, _, _) -> n
| Inode (c, p3, ch) -> Inode (c, (app p1 (b :: p3)), ch)

type rm_result =
| RmNotFound
| RmReplaced of node * ev

(** val remove_go : nat -> node -> z list -> nat -> rm_result res **)

let rec remove_go fuel n k depth =
  match fuel with
  | O -> Err OutOfFuel
  | S f ->
    (match n with
     | Leaf (_, _, _) -> Err Malformed
     | Inode (c, p, ch) ->
       if Nat.ltb (length k) depth
       then Err Oob
       else let rem = skipn depth k in
            if Nat.ltb (shared_len p rem) (length p)
            then Ok RmNotFound
            else let d = add depth (length p) in
                 bind (byte_at k d) (fun b ->
                   match find_child ch b O with
                   | Some p0 ->
                     let (i, c') = p0 in
                     (match c' with
                      | Leaf (_, lk, _) ->
                        (match lex_compare k lk with
                         | Eq ->
                           if Nat.eqb (length ch) (min_size c)
                           then (match c with
                                 | C4 ->
                                   (match nth_error ch
                                            (if Nat.eqb i O then S O else O) with
                                    | Some p1 ->
                                      let (sb, s) = p1 in
                                      Ok (RmReplaced
                                      ((prepend_prefix p sb s), (EShrink C4)))
                                    | None -> Err Malformed)
                                 | _ ->
                                   Ok (RmReplaced ((Inode ((smaller c), p,
                                     (remove_nth i ch))), (EShrink c))))
                           else Ok (RmReplaced ((Inode (c, p,
                                  (remove_nth i ch))), (ERemoveLeaf c)))
                         | _ -> Ok RmNotFound)
                      | Inode (_, _, _) ->
                        bind (remove_go f c' k (S d)) (fun r ->
                          match r with
                          | RmNotFound -> Ok RmNotFound
                          | RmReplaced (c'', e) ->
                            Ok (RmReplaced ((Inode (c, p,
                              (replace_nth i (b, c'') ch))), e))))
                   | None -> Ok RmNotFound))

type sizes = { sz_leaf : z; sz4 : z; sz16 : z; sz48 : z; sz256 : z }

(** val sz_of : sizes -> cls -> z **)

let sz_of s = function
| C4 -> s.sz4
| C16 -> s.sz16
| C48 -> s.sz48
| C256 -> s.sz256

type stats = { n_leaf : z; n_i : (cls -> z); grow : (cls -> z);
               shrink : (cls -> z); splits : z; mem : z }

(** val upd : (cls -> z) -> cls -> z -> cls -> z **)

let upd f c d x =
  if cls_eqb x c then Z.add (f x) d else f x

(** val zero_c : cls -> z **)

let zero_c _ =
  Z0

(** val stats0 : stats **)

let stats0 =
  { n_leaf = Z0; n_i = zero_c; grow = zero_c; shrink = zero_c; splits = Z0;
    mem = Z0 }

(** val leaf_size : sizes -> z list -> z list -> z **)

let leaf_size sz k v =
  Z.add (Z.add sz.sz_leaf (Z.of_nat (length k))) (Z.of_nat (length v))

(** val stats_insert : sizes -> stats -> ev -> z list -> z list -> stats **)

let stats_insert sz s e k v =
  let s0 = { n_leaf = (Z.add s.n_leaf (Zpos XH)); n_i = s.n_i; grow = s.grow;
    shrink = s.shrink; splits = s.splits; mem =
    (Z.add s.mem (leaf_size sz k v)) }
  in
  (match e with
   | ELeafSplit ->
     { n_leaf = s0.n_leaf; n_i = (upd s0.n_i C4 (Zpos XH)); grow =
       (upd s0.grow C4 (Zpos XH)); shrink = s0.shrink; splits = s0.splits;
       mem = (Z.add s0.mem sz.sz4) }
   | EPrefixSplit ->
     { n_leaf = s0.n_leaf; n_i = (upd s0.n_i C4 (Zpos XH)); grow =
       (upd s0.grow C4 (Zpos XH)); shrink = s0.shrink; splits =
       (Z.add s0.splits (Zpos XH)); mem = (Z.add s0.mem sz.sz4) }
   | EGrow c ->
     { n_leaf = s0.n_leaf; n_i =
       (upd (upd s0.n_i c (Zpos XH)) (smaller c) (Zneg XH)); grow =
       (upd s0.grow c (Zpos XH)); shrink = s0.shrink; splits = s0.splits;
       mem = (Z.sub (Z.add s0.mem (sz_of sz c)) (sz_of sz (smaller c))) }
   | _ -> s0)

(** val stats_remove : sizes -> stats -> ev -> z list -> z list -> stats **)

let stats_remove sz s e k v =
  let s0 = { n_leaf = (Z.sub s.n_leaf (Zpos XH)); n_i = s.n_i; grow = s.grow;
    shrink = s.shrink; splits = s.splits; mem =
    (Z.sub s.mem (leaf_size sz k v)) }
  in
  (match e with
   | EShrink c ->
     (match c with
      | C4 ->
        { n_leaf = s0.n_leaf; n_i = (upd s0.n_i C4 (Zneg XH)); grow =
          s0.grow; shrink = (upd s0.shrink C4 (Zpos XH)); splits = s0.splits;
          mem = (Z.sub s0.mem sz.sz4) }
      | _ ->
        { n_leaf = s0.n_leaf; n_i =
          (upd (upd s0.n_i c (Zneg XH)) (smaller c) (Zpos XH)); grow =
          s0.grow; shrink = (upd s0.shrink c (Zpos XH)); splits = s0.splits;
          mem = (Z.add (Z.sub s0.mem (sz_of sz c)) (sz_of sz (smaller c))) })
   | _ -> s0)

(** val stats_clear : stats -> stats **)

let stats_clear s =
  { n_leaf = Z0; n_i = zero_c; grow = s.grow; shrink = s.shrink; splits =
    s.splits; mem = Z0 }

type db = { root : node option; next_id : z; st : stats }

(** val db0 : db **)

let db0 =
  { root = None; next_id = Z0; st = stats0 }

(** val fuel_for : z list -> nat **)

let fuel_for k =
  S (S (length k))

(** val db_get : db -> z list -> (z * z list) option res **)

let db_get d k =
  match d.root with
  | Some n -> get_go (fuel_for k) n k O
  | None -> Ok None

(** val db_insert : sizes -> db -> z list -> z list -> (db * bool) res **)

let db_insert sz d k v =
  match d.root with
  | Some n ->
    bind (insert_go (fuel_for k) n k v d.next_id O) (fun r ->
      match r with
      | Some p ->
        let (n', e) = p in
        Ok ({ root = (Some n'); next_id = (Z.add d.next_id (Zpos XH)); st =
        (stats_insert sz d.st e k v) }, true)
      | None -> Ok (d, false))
  | None ->
    Ok ({ root = (Some (Leaf (d.next_id, k, v))); next_id =
      (Z.add d.next_id (Zpos XH)); st =
      (stats_insert sz d.st ERootLeaf k v) }, true)

(** val db_remove : sizes -> db -> z list -> (db * bool) res **)

let db_remove sz d k =
  match d.root with
  | Some n ->
    (match n with
     | Leaf (_, lk, lv) ->
       (match lex_compare k lk with
        | Eq ->
          Ok ({ root = None; next_id = d.next_id; st =
            (stats_remove sz d.st ERemoveRoot lk lv) }, true)
        | _ -> Ok (d, false))
     | Inode (_, _, _) ->
       bind (get_go (fuel_for k) n k O) (fun g ->
         bind (remove_go (fuel_for k) n k O) (fun r ->
           match r with
           | RmNotFound -> Ok (d, false)
           | RmReplaced (n', e) ->
             (match g with
              | Some p ->
                let (_, v) = p in
                Ok ({ root = (Some n'); next_id = d.next_id; st =
                (stats_remove sz d.st e k v) }, true)
              | None -> Err Malformed))))
  | None -> Ok (d, false)

(** val db_clear : db -> db **)

let db_clear d =
  { root = None; next_id = d.next_id; st = (stats_clear d.st) }

(** val db_empty : db -> bool **)

let db_empty d =
  match d.root with
  | Some _ -> false
  | None -> true

type frame =
| FI of node * nat
| FL of node

type stack = frame list

(** val children : node -> (z * node) list **)

let children = function
| Leaf (_, _, _) -> []
| Inode (_, _, ch) -> ch

(** val height : node -> nat **)

let rec height = function
| Leaf (_, _, _) -> O
| Inode (_, _, ch) ->
  S
    (let rec hl = function
     | [] -> O
     | p :: l' -> let (_, c) = p in Nat.max (height c) (hl l')
     in hl ch)

(** val left_most : nat -> node -> stack -> stack res **)

let rec left_most fuel n stk =
  match fuel with
  | O -> Err OutOfFuel
  | S f ->
    (match n with
     | Leaf (_, _, _) -> Ok ((FL n) :: stk)
     | Inode (_, _, ch) ->
       (match ch with
        | [] -> Err Malformed
        | p :: _ -> let (_, c) = p in left_most f c ((FI (n, O)) :: stk)))

(** val right_most : nat -> node -> stack -> stack res **)

let rec right_most fuel n stk =
  match fuel with
  | O -> Err OutOfFuel
  | S f ->
    (match n with
     | Leaf (_, _, _) -> Ok ((FL n) :: stk)
     | Inode (_, _, ch) ->
       (match nth_error ch (pred (length ch)) with
        | Some p ->
          let (_, c) = p in
          right_most f c ((FI (n, (pred (length ch)))) :: stk)
        | None -> Err Malformed))

(** val lm : node -> stack -> stack res **)

let lm n stk =
  left_most (S (height n)) n stk

(** val rm : node -> stack -> stack res **)

let rm n stk =
  right_most (S (height n)) n stk

(** val it_first : node option -> stack res **)

let it_first = function
| Some n -> lm n []
| None -> Ok []

(** val it_last : node option -> stack res **)

let it_last = function
| Some n -> rm n []
| None -> Ok []

(** val it_next : stack -> stack res **)

let rec it_next = function
| [] -> Ok []
| f :: s ->
  (match f with
   | FI (n, i) ->
     (match nth_error (children n) (S i) with
      | Some p -> let (_, c) = p in lm c ((FI (n, (S i))) :: s)
      | None -> it_next s)
   | FL _ -> it_next s)

(** val it_prior : stack -> stack res **)

let rec it_prior = function
| [] -> Ok []
| f :: s ->
  (match f with
   | FI (n, i) ->
     (match i with
      | O -> it_prior s
      | S i' ->
        (match nth_error (children n) i' with
         | Some p -> let (_, c) = p in rm c ((FI (n, i')) :: s)
         | None -> Err Malformed))
   | FL _ -> it_prior s)

(** val gte_idx : (z * node) list -> z -> nat -> nat option **)

let rec gte_idx ch b i =
  match ch with
  | [] -> None
  | p :: ch' ->
    let (x, _) = p in if Z.leb b x then Some i else gte_idx ch' b (S i)

(** val lte_idx : (z * node) list -> z -> nat -> nat option **)

let rec lte_idx ch b i =
  match ch with
  | [] -> None
  | p :: ch' ->
    let (x, _) = p in
    (match lte_idx ch' b (S i) with
     | Some j -> Some j
     | None -> if Z.leb x b then Some i else None)

(** val falloff_fwd : stack -> stack res **)

let rec falloff_fwd stk = match stk with
| [] -> Ok []
| f :: s ->
  (match f with
   | FI (n, i) ->
     (match nth_error (children n) (S i) with
      | Some _ ->
        (match nth_error (children n) i with
         | Some p -> let (_, c) = p in lm c stk
         | None -> Err Malformed)
      | None -> falloff_fwd s)
   | FL _ -> Err Malformed)

(** val falloff_rev : stack -> stack res **)

let rec falloff_rev stk = match stk with
| [] -> Ok []
| f :: s ->
  (match f with
   | FI (n, i) ->
     (match i with
      | O -> falloff_rev s
      | S _ ->
        (match nth_error (children n) i with
         | Some p -> let (_, c) = p in rm c stk
         | None -> Err Malformed))
   | FL _ -> Err Malformed)

(** val seek_go :
    bool -> nat -> node -> z list -> nat -> bool -> stack -> (stack * bool)
    res **)

let rec seek_go fixed fuel n k depth fwd stk =
  match fuel with
  | O -> Err OutOfFuel
  | S f ->
    (match n with
     | Leaf (_, lk, _) ->
       let stk' = (FL n) :: stk in
       (match lex_compare k lk with
        | Eq -> Ok (stk', true)
        | Lt ->
          if fwd
          then Ok (stk', false)
          else bind (it_prior stk') (fun s -> Ok (s, false))
        | Gt ->
          if fwd
          then bind (it_next stk') (fun s -> Ok (s, false))
          else Ok (stk', false))
     | Inode (_, p, ch) ->
       if Nat.ltb (length k) depth
       then Err Oob
       else let rem = skipn depth k in
            let sl = shared_len p rem in
            if Nat.ltb sl (length p)
            then bind (byte_at rem sl) (fun kb ->
                   bind (byte_at p sl) (fun pb ->
                     if Z.ltb kb pb
                     then if fwd
                          then bind (lm n stk) (fun s -> Ok (s, false))
                          else bind (lm n stk) (fun s ->
                                 bind (it_prior s) (fun s' -> Ok (s', false)))
                     else if fwd
                          then bind (rm n stk) (fun s ->
                                 bind (it_next s) (fun s' -> Ok (s', false)))
                          else bind (rm n stk) (fun s -> Ok (s, false))))
            else let d = add depth (length p) in
                 bind (byte_at k d) (fun b ->
                   match find_child ch b O with
                   | Some p0 ->
                     let (i, c') = p0 in
                     seek_go fixed f c' k (S d) fwd ((FI (n, i)) :: stk)
                   | None ->
                     if fwd
                     then (match gte_idx ch b O with
                           | Some j ->
                             (match nth_error ch j with
                              | Some p0 ->
                                let (_, c') = p0 in
                                bind (lm c' ((FI (n, j)) :: stk)) (fun s ->
                                  Ok (s, false))
                              | None -> Err Malformed)
                           | None ->
                             if fixed
                             then bind (it_next stk) (fun s -> Ok (s, false))
                             else bind (falloff_fwd (tl stk)) (fun s -> Ok
                                    (s, false)))
                     else (match lte_idx ch b O with
                           | Some j ->
                             (match nth_error ch j with
                              | Some p0 ->
                                let (_, c') = p0 in
                                bind (rm c' ((FI (n, j)) :: stk)) (fun s ->
                                  Ok (s, false))
                              | None -> Err Malformed)
                           | None ->
                             if fixed
                             then bind (it_prior stk) (fun s -> Ok (s, false))
                             else bind (falloff_rev (tl stk)) (fun s -> Ok
                                    (s, false)))))

(** val it_seek : node option -> z list -> bool -> (stack * bool) res **)

let it_seek r k fwd =
  match r with
  | Some n -> seek_go true (fuel_for k) n k O fwd []
  | None -> Ok ([], false)

(** val it_seek_pinned :
    node option -> z list -> bool -> (stack * bool) res **)

let it_seek_pinned r k fwd =
  match r with
  | Some n -> seek_go false (fuel_for k) n k O fwd []
  | None -> Ok ([], false)

(** val current : stack -> (z list * z list) option **)

let current = function
| [] -> None
| f :: _ ->
  (match f with
   | FI (_, _) -> None
   | FL n ->
     (match n with
      | Leaf (_, k, v) -> Some (k, v)
      | Inode (_, _, _) -> None))

(** val size0 : node -> nat **)

let rec size0 = function
| Leaf (_, _, _) -> S O
| Inode (_, _, ch) ->
  S
    (let rec sl = function
     | [] -> O
     | p :: l' -> let (_, c) = p in add (size0 c) (sl l')
     in sl ch)

(** val scan_loop :
    nat -> bool -> (z list -> bool) -> nat option -> stack -> (z list * z
    list) list -> (z list * z list) list res **)

let rec scan_loop fuel fwd stop halt stk acc =
  match fuel with
  | O -> Err OutOfFuel
  | S f ->
    (match current stk with
     | Some p ->
       let (k, v) = p in
       if stop k
       then Ok (rev acc)
       else let acc' = (k, v) :: acc in
            (match halt with
             | Some n ->
               (match n with
                | O -> Ok (rev acc')
                | S _ ->
                  bind (if fwd then it_next stk else it_prior stk) (fun s ->
                    scan_loop f fwd stop
                      (match halt with
                       | Some n0 -> (match n0 with
                                     | O -> None
                                     | S h -> Some h)
                       | None -> None) s acc'))
             | None ->
               bind (if fwd then it_next stk else it_prior stk) (fun s ->
                 scan_loop f fwd stop
                   (match halt with
                    | Some n -> (match n with
                                 | O -> None
                                 | S h -> Some h)
                    | None -> None) s acc'))
     | None -> Ok (rev acc))

(** val scan_fuel : node option -> nat **)

let scan_fuel = function
| Some n -> S (S (size0 n))
| None -> S O

(** val db_scan : db -> bool -> nat option -> (z list * z list) list res **)

let db_scan d fwd halt =
  bind (if fwd then it_first d.root else it_last d.root) (fun s ->
    scan_loop (scan_fuel d.root) fwd (fun _ -> false) halt s [])

(** val db_scan_from :
    db -> z list -> bool -> nat option -> (z list * z list) list res **)

let db_scan_from d k fwd halt =
  bind (it_seek d.root k fwd) (fun r ->
    scan_loop (scan_fuel d.root) fwd (fun _ -> false) halt (fst r) [])

(** val db_scan_range :
    db -> z list -> z list -> nat option -> (z list * z list) list res **)

let db_scan_range d a b halt =
  match lex_compare a b with
  | Eq -> Ok []
  | Lt ->
    bind (it_seek d.root a true) (fun r ->
      scan_loop (scan_fuel d.root) true (fun k -> negb (lex_ltb k b)) halt
        (fst r) [])
  | Gt ->
    bind (it_seek d.root a false) (fun r ->
      scan_loop (scan_fuel d.root) false (fun k -> lex_leb k b) halt 
        (fst r) [])

(** val db_scan_from_pinned :
    db -> z list -> bool -> (z list * z list) list res **)

let db_scan_from_pinned d k fwd =
  bind (it_seek_pinned d.root k fwd) (fun r ->
    scan_loop (scan_fuel d.root) fwd (fun _ -> false) None (fst r) [])

(** val ev_allocs : ev -> nat **)

let ev_allocs = function
| ENone -> O
| ERootLeaf -> S O
| EAdd _ -> S O
| ERemoveLeaf _ -> O
| EShrink from -> (match from with
                   | C4 -> O
                   | _ -> S O)
| ERemoveRoot -> O
| _ -> S (S O)

(** val db_insert_allocs : db -> z list -> z list -> nat res **)

let db_insert_allocs d k v =
  match d.root with
  | Some n ->
    bind (insert_go (fuel_for k) n k v d.next_id O) (fun r -> Ok
      (match r with
       | Some p -> let (_, e) = p in ev_allocs e
       | None -> O))
  | None -> Ok (S O)

(** val db_remove_allocs : db -> z list -> nat res **)

let db_remove_allocs d k =
  match d.root with
  | Some n ->
    (match n with
     | Leaf (_, _, _) -> Ok O
     | Inode (_, _, _) ->
       bind (remove_go (fuel_for k) n k O) (fun r -> Ok
         (match r with
          | RmNotFound -> O
          | RmReplaced (_, e) -> ev_allocs e)))
  | None -> Ok O

(** val blocks : sizes -> node -> z list **)

let rec blocks sz = function
| Leaf (_, k, v) -> (leaf_size sz k v) :: []
| Inode (c, _, ch) ->
  (sz_of sz c) :: (let rec bl = function
                   | [] -> []
                   | p :: l' -> let (_, c') = p in app (blocks sz c') (bl l')
                   in bl ch)

(** val db_blocks : sizes -> db -> z list **)

let db_blocks sz d =
  match d.root with
  | Some n -> blocks sz n
  | None -> []

(** val ev_ins_allocs : sizes -> ev -> z list -> z list -> z list **)

let ev_ins_allocs sz e k v =
  (leaf_size sz k v) :: (match e with
                         | ELeafSplit -> sz.sz4 :: []
                         | EPrefixSplit -> sz.sz4 :: []
                         | EGrow c -> (sz_of sz c) :: []
                         | _ -> [])

(** val ev_ins_frees : sizes -> ev -> z list **)

let ev_ins_frees sz = function
| EGrow c -> (sz_of sz (smaller c)) :: []
| _ -> []

(** val ev_rem_allocs : sizes -> ev -> z list **)

let ev_rem_allocs sz = function
| EShrink c -> (match c with
                | C4 -> []
                | _ -> (sz_of sz (smaller c)) :: [])
| _ -> []

(** val ev_rem_frees : sizes -> ev -> z list -> z list -> z list **)

let ev_rem_frees sz e k v =
  (leaf_size sz k v) :: (match e with
                         | EShrink c -> (sz_of sz c) :: []
                         | _ -> [])

(** val insert_event : db -> z list -> z list -> ev option **)

let insert_event d k v =
  match d.root with
  | Some n ->
    (match insert_go (fuel_for k) n k v d.next_id O with
     | Ok a ->
       (match a with
        | Some p -> let (_, e) = p in Some e
        | None -> None)
     | Err _ -> None)
  | None -> Some ERootLeaf

(** val remove_event : db -> z list -> (ev * (z list * z list)) option **)

let remove_event d k =
  match d.root with
  | Some n ->
    (match n with
     | Leaf (_, lk, lv) ->
       (match lex_compare k lk with
        | Eq -> Some (ERemoveRoot, (lk, lv))
        | _ -> None)
     | Inode (_, _, _) ->
       (match get_go (fuel_for k) n k O with
        | Ok a ->
          (match a with
           | Some p ->
             let (_, v) = p in
             (match remove_go (fuel_for k) n k O with
              | Ok a0 ->
                (match a0 with
                 | RmNotFound -> None
                 | RmReplaced (_, e) -> Some (e, (k, v)))
              | Err _ -> None)
           | None -> None)
        | Err _ -> None))
  | None -> None

(** val ins_allocs : sizes -> db -> z list -> z list -> z list **)

let ins_allocs sz d k v =
  match insert_event d k v with
  | Some e -> ev_ins_allocs sz e k v
  | None -> []

(** val ins_frees : sizes -> db -> z list -> z list -> z list **)

let ins_frees sz d k v =
  match insert_event d k v with
  | Some e -> ev_ins_frees sz e
  | None -> []

(** val rem_allocs : sizes -> db -> z list -> z list **)

let rem_allocs sz d k =
  match remove_event d k with
  | Some p -> let (e, _) = p in ev_rem_allocs sz e
  | None -> []

(** val rem_frees : sizes -> db -> z list -> z list **)

let rem_frees sz d k =
  match remove_event d k with
  | Some p -> let (e, p0) = p in let (lk, lv) = p0 in ev_rem_frees sz e lk lv
  | None -> []

(** val live_remove_one : z -> z list -> z list option **)

let rec live_remove_one x = function
| [] -> None
| y :: l' ->
  if Z.eqb x y
  then Some l'
  else (match live_remove_one x l' with
        | Some r -> Some (y :: r)
        | None -> None)

(** val free_all : z list -> z list -> z list option **)

let rec free_all fs l =
  match fs with
  | [] -> Some l
  | f :: fs' ->
    (match live_remove_one f l with
     | Some l' -> free_all fs' l'
     | None -> None)

type tid = nat

(** val w_is_free : z -> bool **)

let w_is_free v =
  Z.eqb (Z.modulo v (Zpos (XO (XO XH)))) Z0

(** val w_is_obsolete : z -> bool **)

let w_is_obsolete v =
  Z.eqb v (Zpos XH)

(** val w_set_locked : z -> z **)

let w_set_locked v =
  Z.add v (Zpos (XO XH))

(** val w_obsolete : z **)

let w_obsolete =
  Zpos XH

type event =
| ERLock of tid * z
| ESpin of tid
| ECheck of tid * z * z
| EUpgrade of tid * z * bool
| EWUnlock of tid * z
| EWObsolete of tid
| EStore of tid * nat * z
| ELoad of tid * nat * z

type lstate = { lw : z; lmem : z list; guards : tid list }

(** val linit : nat -> lstate **)

let linit nwords =
  { lw = Z0; lmem = (repeat Z0 nwords); guards = [] }

(** val set_nth : nat -> z -> z list -> z list **)

let rec set_nth i x l =
  match i with
  | O -> (match l with
          | [] -> []
          | _ :: l' -> x :: l')
  | S i' -> (match l with
             | [] -> []
             | y :: l' -> y :: (set_nth i' x l'))

(** val remove_tid : tid -> tid list -> tid list **)

let rec remove_tid t = function
| [] -> []
| x :: l' -> if Nat.eqb x t then l' else x :: (remove_tid t l')

(** val holds : lstate -> tid -> bool **)

let holds s t =
  existsb (Nat.eqb t) s.guards

(** val lstep : lstate -> event -> lstate option **)

let lstep s = function
| ERLock (_, obs) -> if Z.eqb obs s.lw then Some s else None
| ESpin _ -> Some s
| ECheck (_, _, obs) -> if Z.eqb obs s.lw then Some s else None
| EUpgrade (t, v, ok) ->
  if negb (w_is_free v)
  then None
  else if eqb ok (Z.eqb v s.lw)
       then if ok
            then Some { lw = (w_set_locked v); lmem = s.lmem; guards =
                   (t :: s.guards) }
            else Some s
       else None
| EWUnlock (t, neww) ->
  if (&&) (holds s t) (Z.eqb neww (Z.add s.lw (Zpos (XO XH))))
  then Some { lw = neww; lmem = s.lmem; guards = (remove_tid t s.guards) }
  else None
| EWObsolete t ->
  if holds s t
  then Some { lw = w_obsolete; lmem = s.lmem; guards =
         (remove_tid t s.guards) }
  else None
| EStore (t, i, x) ->
  if (&&) ((||) (holds s t) (w_is_obsolete s.lw)) (Nat.ltb i (length s.lmem))
  then Some { lw = s.lw; lmem = (set_nth i x s.lmem); guards = s.guards }
  else None
| ELoad (_, i, x) ->
  (match nth_error s.lmem i with
   | Some y -> if Z.eqb x y then Some s else None
   | None -> None)

(** val lrun : lstate -> event list -> lstate option **)

let rec lrun s = function
| [] -> Some s
| e :: tr' -> (match lstep s e with
               | Some s' -> lrun s' tr'
               | None -> None)

(** val lrun_diag : lstate -> event list -> nat -> lstate * nat option **)

let rec lrun_diag s tr i =
  match tr with
  | [] -> (s, None)
  | e :: tr' ->
    (match lstep s e with
     | Some s' -> lrun_diag s' tr' (S i)
     | None -> (s, (Some i)))

type blk = nat

type gev = blk * event

(** val project : blk -> gev list -> event list **)

let project b tr =
  map snd (filter (fun e -> Nat.eqb (fst e) b) tr)

(** val node_accepts : (blk * lstate) list -> gev list -> bool **)

let node_accepts inits tr =
  forallb (fun bi ->
    match lrun (snd bi) (project (fst bi) tr) with
    | Some _ -> true
    | None -> false) inits

(** val node_diag : (blk * lstate) list -> gev list -> (blk * nat) option **)

let rec node_diag inits tr =
  match inits with
  | [] -> None
  | p :: inits' ->
    let (b, s) = p in
    (match snd (lrun_diag s (project b tr) O) with
     | Some i -> Some (b, i)
     | None -> node_diag inits' tr)

(** val held_after : (blk * tid) list -> gev list -> (blk * tid) list **)

let rec held_after held = function
| [] -> held
| g :: tr' ->
  let (b, e) = g in
  (match e with
   | EUpgrade (t, _, ok) ->
     if ok then held_after ((b, t) :: held) tr' else held_after held tr'
   | EWUnlock (t, _) ->
     held_after
       (filter (fun h -> negb ((&&) (Nat.eqb (fst h) b) (Nat.eqb (snd h) t)))
         held) tr'
   | EWObsolete t ->
     held_after
       (filter (fun h -> negb ((&&) (Nat.eqb (fst h) b) (Nat.eqb (snd h) t)))
         held) tr'
   | _ -> held_after held tr')

(** val holds_any : (blk * tid) list -> tid -> bool **)

let holds_any held t =
  existsb (fun h -> Nat.eqb (snd h) t) held

(** val no_wait_while_holding : (blk * tid) list -> gev list -> bool **)

let rec no_wait_while_holding held = function
| [] -> true
| g :: tr' ->
  let (b, e) = g in
  (&&) (match e with
        | ESpin t -> negb (holds_any held t)
        | _ -> true)
    (no_wait_while_holding (held_after held ((b, e) :: [])) tr')

(** val olc_trace_ok : (blk * lstate) list -> gev list -> bool **)

let olc_trace_ok inits tr =
  (&&) (node_accepts inits tr) (no_wait_while_holding [] tr)

type blk0 = nat

type pev =
| PRLock of blk0 * bool * z
| PCheck of blk0 * bool * z
| PUpgrade of blk0 * bool * z
| PUnlock of blk0
| PObsolete of blk0
| PLoad of blk0
| PStore of blk0
| PAlloc of blk0

(** val root_blk : blk0 **)

let root_blk =
  O

(** val beq : nat -> nat -> bool **)

let beq =
  Nat.eqb

(** val last_attempt_aux : pev list -> pev list -> pev list **)

let rec last_attempt_aux l acc =
  match l with
  | [] -> acc
  | e :: l' ->
    (match e with
     | PRLock (n, _, _) ->
       if beq n root_blk
       then last_attempt_aux l' (e :: l')
       else last_attempt_aux l' acc
     | _ -> last_attempt_aux l' acc)

(** val last_attempt : pev list -> pev list **)

let last_attempt l =
  last_attempt_aux l l

(** val validates : blk0 -> pev -> bool **)

let validates n = function
| PCheck (m, ok, _) -> if ok then beq m n else false
| PUpgrade (m, ok, _) -> if ok then beq m n else false
| _ -> false

(** val validated_later : blk0 -> pev list -> bool **)

let validated_later n l =
  existsb (validates n) l

type sets = blk0 list * blk0 list

(** val upd0 : sets -> pev -> sets **)

let upd0 ho = function
| PUpgrade (n, ok, _) -> if ok then ((n :: (fst ho)), (snd ho)) else ho
| PUnlock n -> ((filter (fun m -> negb (beq m n)) (fst ho)), (snd ho))
| PObsolete n ->
  ((filter (fun m -> negb (beq m n)) (fst ho)), (n :: (snd ho)))
| PAlloc n -> ((fst ho), (n :: (snd ho)))
| _ -> ho

(** val loads_covered : sets -> pev list -> bool **)

let rec loads_covered ho = function
| [] -> true
| e :: l' ->
  (&&)
    (match e with
     | PLoad n ->
       (||) ((||) (existsb (beq n) (fst ho)) (existsb (beq n) (snd ho)))
         (validated_later n l')
     | _ -> true) (loads_covered (upd0 ho e) l')

(** val coupled : pev list -> bool **)

let rec coupled = function
| [] -> true
| p :: l' ->
  (match p with
   | PRLock (n, ok, _) ->
     if ok
     then (&&)
            (let rec after = function
             | [] -> true
             | p0 :: r' ->
               (match p0 with
                | PRLock (_, ok0, _) ->
                  if ok0 then validated_later n r' else after r'
                | _ -> after r')
             in after l') (coupled l')
     else coupled l'
   | _ -> coupled l')

(** val held_at_end : pev list -> blk0 list **)

let held_at_end l =
  fst (fold_left upd0 l ([], []))

(** val allocs : pev list -> blk0 list **)

let allocs l =
  flat_map (fun e -> match e with
                     | PAlloc n -> n :: []
                     | _ -> []) l

(** val versions_own : (blk0 * z) list -> pev list -> bool **)

let rec versions_own seen = function
| [] -> true
| p :: l' ->
  (match p with
   | PRLock (n, _, w) -> versions_own ((n, w) :: seen) l'
   | PCheck (n, _, v) ->
     (&&) (existsb (fun s -> (&&) (beq (fst s) n) (Z.eqb (snd s) v)) seen)
       (versions_own seen l')
   | PUpgrade (n, _, v) ->
     (&&) (existsb (fun s -> (&&) (beq (fst s) n) (Z.eqb (snd s) v)) seen)
       (versions_own seen l')
   | _ -> versions_own seen l')

(** val ptr_validated : sets -> blk0 option -> pev list -> bool **)

let rec ptr_validated ho pending0 = function
| [] -> true
| e :: l' ->
  let ho' = upd0 ho e in
  (match e with
   | PRLock (c, ok, w) ->
     if beq c root_blk
     then ptr_validated ho' None l'
     else (match pending0 with
           | Some m ->
             if beq m c
             then ptr_validated ho' (if ok then pending0 else None) l'
             else false
           | None ->
             ptr_validated ho'
               (if (&&) (negb ok) (Z.eqb w (Zpos XH)) then None else pending0)
               l')
   | PCheck (n, ok, _) ->
     if ok
     then ptr_validated ho'
            (match pending0 with
             | Some m -> if beq m n then None else pending0
             | None -> None) l'
     else ptr_validated ho' None l'
   | PUpgrade (n, ok, _) ->
     if ok
     then ptr_validated ho'
            (match pending0 with
             | Some m -> if beq m n then None else pending0
             | None -> None) l'
     else ptr_validated ho' None l'
   | PLoad n ->
     if (||) (existsb (beq n) (fst ho)) (existsb (beq n) (snd ho))
     then ptr_validated ho' pending0 l'
     else ptr_validated ho' (Some n) l'
   | _ -> ptr_validated ho' pending0 l')

(** val op_ok : pev list -> bool **)

let op_ok l =
  let a = last_attempt l in
  (&&)
    ((&&)
      ((&&) ((&&) (loads_covered ([], (allocs l)) a) (coupled a))
        (match held_at_end l with
         | [] -> true
         | _ :: _ -> false)) (versions_own [] l))
    (ptr_validated ([], (allocs l)) None l)

(** val is_failure : pev -> bool **)

let is_failure = function
| PRLock (_, ok, w) -> if ok then false else Z.eqb w (Zpos XH)
| PCheck (_, ok, _) -> if ok then false else true
| PUpgrade (_, ok, _) -> if ok then false else true
| _ -> false

(** val scan_loads_covered : pev list -> bool **)

let rec scan_loads_covered = function
| [] -> true
| e :: l' ->
  (&&)
    (match e with
     | PLoad n -> existsb (fun x -> (||) (validates n x) (is_failure x)) l'
     | _ -> true) (scan_loads_covered l')

(** val scan_ok : pev list -> bool **)

let scan_ok l =
  (&&) ((&&) (versions_own [] l) (scan_loads_covered l))
    (ptr_validated ([], []) None l)

type tid0 = nat

type ptr = z

(** val ep_adv : z -> z **)

let ep_adv e =
  Z.modulo (Z.add e (Zpos XH)) (Zpos (XO (XO XH)))

type thr = { t_reg : bool; t_lsq : z; t_ls : z; t_qs : z; t_prev : ptr list;
             t_cur : ptr list }

(** val thr0 : thr **)

let thr0 =
  { t_reg = false; t_lsq = Z0; t_ls = Z0; t_qs = Z0; t_prev = []; t_cur = [] }

type qstate = { q_ep : z; q_T : z; q_P : z; q_oprev : ptr list list;
                q_ocur : ptr list list; q_thr : thr list; q_gep : z;
                q_wait : (ptr * tid0 list) list }

(** val qinit : nat -> qstate **)

let qinit n =
  { q_ep = Z0; q_T = Z0; q_P = Z0; q_oprev = []; q_ocur = []; q_thr =
    (repeat thr0 n); q_gep = Z0; q_wait = [] }

(** val get_thr : qstate -> tid0 -> thr **)

let get_thr s t =
  nth t s.q_thr thr0

(** val set_nth_thr : nat -> thr -> thr list -> thr list **)

let rec set_nth_thr i x l =
  match i with
  | O -> (match l with
          | [] -> []
          | _ :: l' -> x :: l')
  | S i' -> (match l with
             | [] -> []
             | y :: l' -> y :: (set_nth_thr i' x l'))

(** val set_thr : qstate -> tid0 -> thr -> qstate **)

let set_thr s t x =
  { q_ep = s.q_ep; q_T = s.q_T; q_P = s.q_P; q_oprev = s.q_oprev; q_ocur =
    s.q_ocur; q_thr = (set_nth_thr t x s.q_thr); q_gep = s.q_gep; q_wait =
    s.q_wait }

type step_res = qstate * ptr list

(** val remove_tid0 : tid0 -> tid0 list -> tid0 list **)

let rec remove_tid0 t = function
| [] -> []
| x :: l' -> if Nat.eqb x t then remove_tid0 t l' else x :: (remove_tid0 t l')

(** val ghost_passed :
    (ptr * tid0 list) list -> tid0 -> (ptr * tid0 list) list **)

let ghost_passed w t =
  map (fun pw -> ((fst pw), (remove_tid0 t (snd pw)))) w

(** val registered_others : thr list -> tid0 -> nat -> tid0 list **)

let rec registered_others l t i =
  match l with
  | [] -> []
  | x :: l' ->
    app (if (&&) x.t_reg (negb (Nat.eqb i t)) then i :: [] else [])
      (registered_others l' t (S i))

(** val ghost_drop :
    (ptr * tid0 list) list -> ptr list -> (ptr * tid0 list) list **)

let rec ghost_drop w ps =
  match w with
  | [] -> []
  | p0 :: w' ->
    let (p, ws) = p0 in
    if existsb (Z.eqb p) ps
    then ghost_drop w' ps
    else (p, ws) :: (ghost_drop w' ps)

(** val with_ghost : qstate -> (ptr * tid0 list) list -> qstate **)

let with_ghost s w =
  { q_ep = s.q_ep; q_T = s.q_T; q_P = s.q_P; q_oprev = s.q_oprev; q_ocur =
    s.q_ocur; q_thr = s.q_thr; q_gep = s.q_gep; q_wait = w }

(** val exec_prev : thr -> bool -> z -> ptr list -> thr * ptr list **)

let exec_prev x stm de newcur =
  if stm
  then ({ t_reg = x.t_reg; t_lsq = x.t_lsq; t_ls = de; t_qs = x.t_qs;
         t_prev = []; t_cur = newcur }, (app x.t_cur x.t_prev))
  else ({ t_reg = x.t_reg; t_lsq = x.t_lsq; t_ls = de; t_qs = x.t_qs;
         t_prev = x.t_cur; t_cur = newcur }, x.t_prev)

(** val adv_seen : thr -> bool -> z -> ptr list -> (thr * ptr list) * bool **)

let adv_seen x stm e newcur =
  if Z.eqb e x.t_ls
  then ((x, []), false)
  else ((exec_prev x stm e newcur), true)

(** val handle_orphans :
    qstate -> bool -> (ptr list list * ptr list list) * ptr list **)

let handle_orphans s = function
| true -> (([], []), (app (concat s.q_oprev) (concat s.q_ocur)))
| false -> ((s.q_ocur, []), (concat s.q_oprev))

(** val q_retire : qstate -> tid0 -> ptr -> step_res **)

let q_retire s t p =
  let x = get_thr s t in
  let e = s.q_ep in
  let stm = Z.ltb s.q_T (Zpos (XO XH)) in
  if stm
  then let (p0, _) = adv_seen x stm e [] in
       let (x', f) = p0 in
       let s' = set_thr s t x' in
       ((with_ghost s' ((p, (registered_others s.q_thr t O)) :: s'.q_wait)),
       (app f (p :: [])))
  else if negb (Z.eqb x.t_ls e)
       then let (p0, _) = adv_seen x stm e (p :: []) in
            let (x', f) = p0 in
            let s' = set_thr s t x' in
            ((with_ghost s' ((p,
               (registered_others s.q_thr t O)) :: s'.q_wait)), f)
       else let x' = { t_reg = x.t_reg; t_lsq = x.t_lsq; t_ls = x.t_ls;
              t_qs = x.t_qs; t_prev = x.t_prev; t_cur =
              (app x.t_cur (p :: [])) }
            in
            let s' = set_thr s t x' in
            ((with_ghost s' ((p,
               (registered_others s.q_thr t O)) :: s'.q_wait)), [])

(** val q_quiescent : qstate -> tid0 -> step_res **)

let q_quiescent s0 t =
  let s = with_ghost s0 (ghost_passed s0.q_wait t) in
  let x = get_thr s t in
  let e = s.q_ep in
  let stm = Z.ltb s.q_T (Zpos (XO XH)) in
  let (p, _) = adv_seen x stm e [] in
  let (x1, f1) = p in
  let x2 =
    if negb (Z.eqb e x1.t_lsq)
    then { t_reg = x1.t_reg; t_lsq = e; t_ls = x1.t_ls; t_qs = Z0; t_prev =
           x1.t_prev; t_cur = x1.t_cur }
    else x1
  in
  if Z.eqb x2.t_qs Z0
  then if Z.ltb (Zpos XH) s.q_P
       then let x3 = { t_reg = x2.t_reg; t_lsq = x2.t_lsq; t_ls = x2.t_ls;
              t_qs = (Z.add x2.t_qs (Zpos XH)); t_prev = x2.t_prev; t_cur =
              x2.t_cur }
            in
            let s1 = set_thr s t x3 in
            ({ q_ep = s1.q_ep; q_T = s1.q_T; q_P = (Z.sub s1.q_P (Zpos XH));
            q_oprev = s1.q_oprev; q_ocur = s1.q_ocur; q_thr = s1.q_thr;
            q_gep = s1.q_gep; q_wait = s1.q_wait }, f1)
       else let (p0, fo) = handle_orphans s stm in
            let (op, oc) = p0 in
            let ne = ep_adv e in
            let x3 = { t_reg = x2.t_reg; t_lsq = ne; t_ls = x2.t_ls; t_qs =
              x2.t_qs; t_prev = x2.t_prev; t_cur = x2.t_cur }
            in
            let (x4, f2) = exec_prev x3 stm ne [] in
            let s1 = set_thr s t x4 in
            ({ q_ep = ne; q_T = s1.q_T; q_P = s1.q_T; q_oprev = op; q_ocur =
            oc; q_thr = s1.q_thr; q_gep = (Z.add s1.q_gep (Zpos XH));
            q_wait = s1.q_wait }, (app f1 (app fo f2)))
  else let x3 = { t_reg = x2.t_reg; t_lsq = x2.t_lsq; t_ls = x2.t_ls; t_qs =
         (Z.add x2.t_qs (Zpos XH)); t_prev = x2.t_prev; t_cur = x2.t_cur }
       in
       ((set_thr s t x3), f1)

(** val push_nonempty : ptr list -> ptr list list -> ptr list list **)

let push_nonempty v l =
  match v with
  | [] -> l
  | _ :: _ -> v :: l

(** val q_unregister : qstate -> tid0 -> step_res **)

let q_unregister s0 t =
  let s = with_ghost s0 (ghost_passed s0.q_wait t) in
  let x = get_thr s t in
  let e = s.q_ep in
  let stm = Z.ltb s.q_T (Zpos (XO XH)) in
  if Z.eqb s.q_P Z0
  then let x' = { t_reg = false; t_lsq = x.t_lsq; t_ls = x.t_ls; t_qs =
         x.t_qs; t_prev = []; t_cur = [] }
       in
       let s1 = set_thr s t x' in
       ({ q_ep = s1.q_ep; q_T = (Z.sub s1.q_T (Zpos XH)); q_P = s1.q_P;
       q_oprev = (push_nonempty x.t_prev s1.q_oprev); q_ocur =
       (push_nonempty x.t_cur s1.q_ocur); q_thr = s1.q_thr; q_gep = s1.q_gep;
       q_wait = s1.q_wait }, [])
  else let remove_old = (||) (negb (Z.eqb x.t_lsq e)) (Z.eqb x.t_qs Z0) in
       let advance = (&&) remove_old (Z.eqb s.q_P (Zpos XH)) in
       let (p, fo) =
         if advance then handle_orphans s stm else ((s.q_oprev, s.q_ocur), [])
       in
       let (op, oc) = p in
       let (p0, _) = adv_seen x stm e [] in
       let (x1, f1) = p0 in
       let (x2, f2) =
         if advance then exec_prev x1 stm (ep_adv e) [] else (x1, [])
       in
       let x' = { t_reg = false; t_lsq = x2.t_lsq; t_ls = x2.t_ls; t_qs =
         x2.t_qs; t_prev = []; t_cur = [] }
       in
       let s1 = set_thr s t x' in
       ({ q_ep = (if advance then ep_adv e else e); q_T =
       (Z.sub s.q_T (Zpos XH)); q_P =
       (if advance
        then Z.sub s.q_T (Zpos XH)
        else if remove_old then Z.sub s.q_P (Zpos XH) else s.q_P); q_oprev =
       (push_nonempty x2.t_prev op); q_ocur = (push_nonempty x2.t_cur oc);
       q_thr = s1.q_thr; q_gep =
       (if advance then Z.add s.q_gep (Zpos XH) else s.q_gep); q_wait =
       s1.q_wait }, (app fo (app f1 f2)))

(** val q_register : qstate -> tid0 -> step_res **)

let q_register s t =
  let x' = { t_reg = true; t_lsq = s.q_ep; t_ls = s.q_ep; t_qs = Z0; t_prev =
    []; t_cur = [] }
  in
  let s1 = set_thr s t x' in
  ({ q_ep = s1.q_ep; q_T = (Z.add s1.q_T (Zpos XH)); q_P =
  (Z.add s1.q_P (Zpos XH)); q_oprev = s1.q_oprev; q_ocur = s1.q_ocur; q_thr =
  s1.q_thr; q_gep = s1.q_gep; q_wait = s1.q_wait }, [])

type qop =
| QRegister of tid0
| QUnregister of tid0
| QQuiescent of tid0
| QRetire of tid0 * ptr

(** val op_tid : qop -> tid0 **)

let op_tid = function
| QRegister t -> t
| QUnregister t -> t
| QQuiescent t -> t
| QRetire (t, _) -> t

(** val op_enabled : qstate -> qop -> bool **)

let op_enabled s o =
  (&&) (Nat.ltb (op_tid o) (length s.q_thr))
    (match o with
     | QRegister t -> negb (get_thr s t).t_reg
     | _ -> (get_thr s (op_tid o)).t_reg)

(** val qstep : qstate -> qop -> step_res **)

let qstep s o =
  let (s', f) =
    match o with
    | QRegister t -> q_register s t
    | QUnregister t -> q_unregister s t
    | QQuiescent t -> q_quiescent s t
    | QRetire (t, p) -> q_retire s t p
  in
  ((with_ghost s' (ghost_drop s'.q_wait f)), f)

(** val wait_of : (ptr * tid0 list) list -> ptr -> tid0 list **)

let rec wait_of w p =
  match w with
  | [] -> []
  | p0 :: w' -> let (q, ws) = p0 in if Z.eqb q p then ws else wait_of w' p

(** val pending : qstate -> ptr list **)

let pending s =
  app (concat (map (fun x -> app x.t_prev x.t_cur) s.q_thr))
    (app (concat s.q_oprev) (concat s.q_ocur))

(** val registered_count : qstate -> z **)

let registered_count s =
  Z.of_nat (length (filter (fun t -> t.t_reg) s.q_thr))

type sw = { w_ep : z; w_T : z; w_P : z }

(** val sw_word : sw -> z **)

let sw_word x =
  Z.add
    (Z.add
      (Z.mul x.w_ep (Z.pow (Zpos (XO XH)) (Zpos (XO (XI (XI (XI (XI XH))))))))
      (Z.mul x.w_T (Z.pow (Zpos (XO XH)) (Zpos (XO (XO (XO (XO (XO XH)))))))))
    x.w_P

(** val sw_eqb : sw -> sw -> bool **)

let sw_eqb x y =
  (&&) ((&&) (Z.eqb x.w_ep y.w_ep) (Z.eqb x.w_T y.w_T)) (Z.eqb x.w_P y.w_P)

(** val sw_stm : sw -> bool **)

let sw_stm x =
  Z.ltb x.w_T (Zpos (XO XH))

(** val sw_inc_T : sw -> sw **)

let sw_inc_T x =
  { w_ep = x.w_ep; w_T = (Z.add x.w_T (Zpos XH)); w_P = x.w_P }

(** val sw_dec_T : sw -> sw **)

let sw_dec_T x =
  { w_ep = x.w_ep; w_T = (Z.sub x.w_T (Zpos XH)); w_P = x.w_P }

(** val sw_inc_TP : sw -> sw **)

let sw_inc_TP x =
  { w_ep = x.w_ep; w_T = (Z.add x.w_T (Zpos XH)); w_P =
    (Z.add x.w_P (Zpos XH)) }

(** val sw_dec_TP : sw -> sw **)

let sw_dec_TP x =
  { w_ep = x.w_ep; w_T = (Z.sub x.w_T (Zpos XH)); w_P =
    (Z.sub x.w_P (Zpos XH)) }

(** val sw_dec_P : sw -> sw **)

let sw_dec_P x =
  { w_ep = x.w_ep; w_T = x.w_T; w_P = (Z.sub x.w_P (Zpos XH)) }

(** val sw_next_epoch : sw -> sw **)

let sw_next_epoch x =
  { w_ep = (ep_adv x.w_ep); w_T = x.w_T; w_P = x.w_T }

type fop =
| OpStart
| OpResume
| OpQuiescent
| OpRetire
| OpPause
| OpExit

(** val fop_eqb : fop -> fop -> bool **)

let fop_eqb a b =
  match a with
  | OpStart -> (match b with
                | OpStart -> true
                | _ -> false)
  | OpResume -> (match b with
                 | OpResume -> true
                 | _ -> false)
  | OpQuiescent -> (match b with
                    | OpQuiescent -> true
                    | _ -> false)
  | OpRetire -> (match b with
                 | OpRetire -> true
                 | _ -> false)
  | OpPause -> (match b with
                | OpPause -> true
                | _ -> false)
  | OpExit -> (match b with
               | OpExit -> true
               | _ -> false)

type olist =
| OPrev
| OCur

(** val olist_eqb : olist -> olist -> bool **)

let olist_eqb a b =
  match a with
  | OPrev -> (match b with
              | OPrev -> true
              | OCur -> false)
  | OCur -> (match b with
             | OPrev -> false
             | OCur -> true)

type fevent =
| FCall of tid0 * fop * z
| FRet of tid0 * fop
| FLoad of tid0 * z
| FCas of tid0 * z * z
| FFetchSub of tid0 * z
| FSpin of tid0
| FOLoad of tid0 * olist * z
| FOCas of tid0 * olist * z * z
| FOXchg of tid0 * olist * z
| FOMove of tid0 * z * z
| FOAppend of tid0 * z
| FAlloc of tid0 * ptr
| FRetire of tid0 * ptr
| FFree of tid0 * ptr

(** val ev_tid : fevent -> tid0 **)

let ev_tid = function
| FCall (t, _, _) -> t
| FRet (t, _) -> t
| FLoad (t, _) -> t
| FCas (t, _, _) -> t
| FFetchSub (t, _) -> t
| FSpin t -> t
| FOLoad (t, _, _) -> t
| FOCas (t, _, _, _) -> t
| FOXchg (t, _, _) -> t
| FOMove (t, _, _) -> t
| FOAppend (t, _) -> t
| FAlloc (t, _) -> t
| FRetire (t, _) -> t
| FFree (t, _) -> t

type onode = z * ptr list

type uframe = { u_old : sw; u_ecbc : bool; u_qs : z; u_te : z }

type caller =
| CallQ of sw
| CallU of uframe

type pc =
| PIdle
| PRet
| PRegLoad
| PRegCas of sw
| PRegSpin of z
| PRetObs of ptr
| PRetLoad of ptr
| PQLoad
| PRmFsub of caller * z
| PChXPrev of caller * z * bool
| PChXCur of caller * z * bool * onode list
| PChMove of caller * z * onode list
| PChAppend of caller * z * onode list * z
| PChLoad of caller * z
| PChCas of caller * z * sw
| PULoad of uframe
| PUCas of uframe
| POLoad of olist
| POCas of olist * z

type fthr = { ft : thr; ft_pc : pc; ft_op : fop; ft_free : ptr list }

(** val fthr0 : fthr **)

let fthr0 =
  { ft = thr0; ft_pc = PIdle; ft_op = OpStart; ft_free = [] }

type fstate = { f_w : sw; f_oprev : onode list; f_ocur : onode list;
                f_thr : fthr list; f_freed : ptr list; f_gep : z;
                f_wait : (ptr * tid0 list) list;
                f_bad : (ptr * tid0 list) list }

(** val finit : nat -> z -> fstate **)

let finit n e =
  { f_w = { w_ep = e; w_T = Z0; w_P = Z0 }; f_oprev = []; f_ocur = [];
    f_thr = (repeat fthr0 n); f_freed = []; f_gep = Z0; f_wait = []; f_bad =
    [] }

(** val get_fthr : fstate -> tid0 -> fthr **)

let get_fthr s t =
  nth t s.f_thr fthr0

(** val set_nth_fthr : nat -> fthr -> fthr list -> fthr list **)

let rec set_nth_fthr i x l =
  match i with
  | O -> (match l with
          | [] -> []
          | _ :: l' -> x :: l')
  | S i' -> (match l with
             | [] -> []
             | y :: l' -> y :: (set_nth_fthr i' x l'))

(** val set_fthr : fstate -> tid0 -> fthr -> fstate **)

let set_fthr s t x =
  { f_w = s.f_w; f_oprev = s.f_oprev; f_ocur = s.f_ocur; f_thr =
    (set_nth_fthr t x s.f_thr); f_freed = s.f_freed; f_gep = s.f_gep;
    f_wait = s.f_wait; f_bad = s.f_bad }

(** val set_w : fstate -> sw -> fstate **)

let set_w s w =
  { f_w = w; f_oprev = s.f_oprev; f_ocur = s.f_ocur; f_thr = s.f_thr;
    f_freed = s.f_freed; f_gep = s.f_gep; f_wait = s.f_wait; f_bad = s.f_bad }

(** val get_ol : fstate -> olist -> onode list **)

let get_ol s = function
| OPrev -> s.f_oprev
| OCur -> s.f_ocur

(** val set_ol : fstate -> olist -> onode list -> fstate **)

let set_ol s l v =
  { f_w = s.f_w; f_oprev = (match l with
                            | OPrev -> v
                            | OCur -> s.f_oprev); f_ocur =
    (match l with
     | OPrev -> s.f_ocur
     | OCur -> v); f_thr = s.f_thr; f_freed = s.f_freed; f_gep = s.f_gep;
    f_wait = s.f_wait; f_bad = s.f_bad }

(** val set_wait : fstate -> (ptr * tid0 list) list -> fstate **)

let set_wait s w =
  { f_w = s.f_w; f_oprev = s.f_oprev; f_ocur = s.f_ocur; f_thr = s.f_thr;
    f_freed = s.f_freed; f_gep = s.f_gep; f_wait = w; f_bad = s.f_bad }

(** val bump_gep : fstate -> fstate **)

let bump_gep s =
  { f_w = s.f_w; f_oprev = s.f_oprev; f_ocur = s.f_ocur; f_thr = s.f_thr;
    f_freed = s.f_freed; f_gep = (Z.add s.f_gep (Zpos XH)); f_wait =
    s.f_wait; f_bad = s.f_bad }

(** val ol_head : onode list -> z **)

let ol_head = function
| [] -> Z0
| o :: _ -> let (a, _) = o in a

(** val ol_reqs : onode list -> ptr list **)

let ol_reqs l =
  concat (map snd l)

(** val with_pc : fthr -> pc -> fthr **)

let with_pc x p =
  { ft = x.ft; ft_pc = p; ft_op = x.ft_op; ft_free = x.ft_free }

(** val upd1 : fthr -> thr -> pc -> ptr list -> fthr **)

let upd1 x th p fr =
  { ft = th; ft_pc = p; ft_op = x.ft_op; ft_free = (app x.ft_free fr) }

(** val thr_set_reg : thr -> bool -> thr **)

let thr_set_reg x b =
  { t_reg = b; t_lsq = x.t_lsq; t_ls = x.t_ls; t_qs = x.t_qs; t_prev =
    x.t_prev; t_cur = x.t_cur }

(** val thr_set_lsq_qs : thr -> z -> z -> thr **)

let thr_set_lsq_qs x e q =
  { t_reg = x.t_reg; t_lsq = e; t_ls = x.t_ls; t_qs = q; t_prev = x.t_prev;
    t_cur = x.t_cur }

(** val thr_set_vec : thr -> olist -> ptr list -> thr **)

let thr_set_vec x l v =
  { t_reg = x.t_reg; t_lsq = x.t_lsq; t_ls = x.t_ls; t_qs = x.t_qs; t_prev =
    (match l with
     | OPrev -> v
     | OCur -> x.t_prev); t_cur =
    (match l with
     | OPrev -> x.t_cur
     | OCur -> v) }

(** val thr_vec : thr -> olist -> ptr list **)

let thr_vec x = function
| OPrev -> x.t_prev
| OCur -> x.t_cur

(** val reg_return : fthr -> z -> fthr **)

let reg_return x e =
  upd1 x { t_reg = x.ft.t_reg; t_lsq = e; t_ls = e; t_qs = Z0; t_prev =
    x.ft.t_prev; t_cur = x.ft.t_cur } PRet []

(** val orph_next : thr -> pc **)

let orph_next th =
  match th.t_prev with
  | [] -> (match th.t_cur with
           | [] -> PRet
           | _ :: _ -> POLoad OCur)
  | _ :: _ -> POLoad OPrev

(** val u_remove_old : uframe -> bool **)

let u_remove_old u =
  (||) (negb (Z.eqb u.u_te u.u_old.w_ep)) (Z.eqb u.u_qs Z0)

(** val u_advance : uframe -> bool **)

let u_advance u =
  (&&) ((&&) (u_remove_old u) (Z.eqb u.u_old.w_P (Zpos XH)))
    (negb ((&&) (sw_stm u.u_old) u.u_ecbc))

(** val u_decide : uframe -> pc **)

let u_decide u =
  if Z.eqb u.u_old.w_P Z0
  then PUCas u
  else if u_advance u then PRmFsub ((CallU u), u.u_old.w_ep) else PUCas u

(** val u_desired : uframe -> sw **)

let u_desired u =
  if Z.eqb u.u_old.w_P Z0
  then sw_dec_T u.u_old
  else if u_remove_old u then sw_dec_TP u.u_old else sw_dec_T u.u_old

(** val u_with_old : uframe -> sw -> uframe **)

let u_with_old u w =
  { u_old = w; u_ecbc = u.u_ecbc; u_qs = u.u_qs; u_te = u.u_te }

(** val rm_return : fthr -> caller -> z -> fthr **)

let rm_return x c ne =
  match c with
  | CallQ st0 ->
    let th = x.ft in
    if negb (Z.eqb ne th.t_lsq)
    then let (th', f) =
           exec_prev (thr_set_lsq_qs th ne th.t_qs) (sw_stm st0) ne []
         in
         upd1 x th' PRet f
    else upd1 x (thr_set_lsq_qs th th.t_lsq (Z.add th.t_qs (Zpos XH))) PRet []
  | CallU u ->
    let oe = u.u_old.w_ep in
    let ostm = sw_stm u.u_old in
    if negb (Z.eqb ne oe)
    then let (p, _) = adv_seen x.ft ostm oe [] in
         let (th1, f1) = p in
         let (th2, f2) = exec_prev th1 ostm ne [] in
         upd1 x th2 (PULoad { u_old = u.u_old; u_ecbc = true; u_qs = Z0;
           u_te = ne }) (app f1 f2)
    else upd1 x x.ft (PULoad { u_old = u.u_old; u_ecbc = u.u_ecbc; u_qs =
           (Zpos XH); u_te = ne }) []

(** val append_from : z -> onode list -> onode list -> onode list option **)

let rec append_from h l tc =
  match l with
  | [] -> None
  | o :: l' ->
    let (a, v) = o in
    if Z.eqb a h
    then Some (app l tc)
    else (match append_from h l' tc with
          | Some r -> Some ((a, v) :: r)
          | None -> None)

(** val holds_refs : fthr -> bool **)

let holds_refs x =
  (&&) x.ft.t_reg
    (negb
      (match x.ft_pc with
       | PIdle -> false
       | _ -> fop_eqb x.ft_op OpQuiescent))

(** val active_others : fthr list -> tid0 -> nat -> tid0 list **)

let rec active_others l t i =
  match l with
  | [] -> []
  | x :: l' ->
    app (if (&&) (holds_refs x) (negb (Nat.eqb i t)) then i :: [] else [])
      (active_others l' t (S i))

(** val remove_ptr : ptr -> ptr list -> ptr list **)

let rec remove_ptr p = function
| [] -> []
| q :: l' -> if Z.eqb q p then remove_ptr p l' else q :: (remove_ptr p l')

(** val sees : fstate -> z -> bool **)

let sees s w =
  Z.eqb w (sw_word s.f_w)

(** val step_free : fstate -> tid0 -> fthr -> ptr -> fstate option **)

let step_free s t x p =
  match x.ft_free with
  | [] -> None
  | q :: r ->
    if Z.eqb p q
    then let ws = wait_of s.f_wait p in
         let s1 =
           set_fthr s t { ft = x.ft; ft_pc = x.ft_pc; ft_op = x.ft_op;
             ft_free = r }
         in
         Some { f_w = s1.f_w; f_oprev = s1.f_oprev; f_ocur = s1.f_ocur;
         f_thr = s1.f_thr; f_freed = (p :: s1.f_freed); f_gep = s1.f_gep;
         f_wait = (ghost_drop s1.f_wait (p :: [])); f_bad =
         (match ws with
          | [] -> s1.f_bad
          | _ :: _ -> app s1.f_bad ((p, ws) :: [])) }
    else None

(** val step_alloc : fstate -> tid0 -> fthr -> ptr -> fstate option **)

let step_alloc s _ x p =
  match x.ft_pc with
  | PIdle ->
    Some { f_w = s.f_w; f_oprev = s.f_oprev; f_ocur = s.f_ocur; f_thr =
      s.f_thr; f_freed = (remove_ptr p s.f_freed); f_gep = s.f_gep; f_wait =
      s.f_wait; f_bad = s.f_bad }
  | _ -> None

(** val set_op : fthr -> fop -> thr -> pc -> fthr **)

let set_op x o th p =
  { ft = th; ft_pc = p; ft_op = o; ft_free = x.ft_free }

(** val step_call : fstate -> tid0 -> fthr -> fop -> z -> fstate option **)

let step_call s t x o arg =
  let th = x.ft in
  (match o with
   | OpStart ->
     if th.t_reg then None else Some (set_fthr s t (set_op x o th PRegLoad))
   | OpResume ->
     if th.t_reg then None else Some (set_fthr s t (set_op x o th PRegLoad))
   | OpQuiescent ->
     if th.t_reg
     then Some
            (set_fthr (set_wait s (ghost_passed s.f_wait t)) t
              (set_op x o th PQLoad))
     else None
   | OpRetire ->
     if th.t_reg
     then Some (set_fthr s t (set_op x o th (PRetObs arg)))
     else None
   | _ ->
     if th.t_reg
     then let u = { u_old = s.f_w; u_ecbc = false; u_qs = th.t_qs; u_te =
            th.t_lsq }
          in
          Some
          (set_fthr (set_wait s (ghost_passed s.f_wait t)) t
            (set_op x o (thr_set_reg th false) (PULoad u)))
     else None)

(** val step_ret : fstate -> tid0 -> fthr -> fop -> fstate option **)

let step_ret s t x o =
  if fop_eqb o x.ft_op
  then let th =
         match o with
         | OpStart -> thr_set_reg x.ft true
         | OpResume -> thr_set_reg x.ft true
         | _ -> x.ft
       in
       Some (set_fthr s t (upd1 x th PIdle []))
  else None

(** val step_reg : fstate -> tid0 -> fthr -> fevent -> fstate option **)

let step_reg s t x e =
  match x.ft_pc with
  | PRegLoad ->
    (match e with
     | FLoad (_, w) ->
       if sees s w
       then Some (set_fthr s t (with_pc x (PRegCas s.f_w)))
       else None
     | _ -> None)
  | PRegCas old ->
    (match e with
     | FCas (_, ex, de) ->
       let both = (||) (Z.ltb Z0 old.w_P) (Z.eqb old.w_T Z0) in
       let new0 = if both then sw_inc_TP old else sw_inc_T old in
       if (&&) (Z.eqb ex (sw_word old)) (Z.eqb de (sw_word new0))
       then if sw_eqb old s.f_w
            then Some
                   (set_fthr (set_w s new0) t
                     (if both
                      then reg_return x old.w_ep
                      else with_pc x (PRegSpin old.w_ep)))
            else Some (set_fthr s t (with_pc x (PRegCas s.f_w)))
       else None
     | _ -> None)
  | PRegSpin oe ->
    (match e with
     | FLoad (_, w) ->
       if sees s w
       then if negb (Z.eqb s.f_w.w_ep oe)
            then Some (set_fthr s t (reg_return x s.f_w.w_ep))
            else Some s
       else None
     | FSpin _ -> Some s
     | _ -> None)
  | _ -> None

(** val step_retire : fstate -> tid0 -> fthr -> fevent -> fstate option **)

let step_retire s t x e =
  match x.ft_pc with
  | PRetObs p ->
    (match e with
     | FRetire (_, p') ->
       if Z.eqb p' p
       then Some
              (set_fthr
                (set_wait s ((p, (active_others s.f_thr t O)) :: s.f_wait)) t
                (with_pc x (PRetLoad p)))
       else None
     | _ -> None)
  | PRetLoad p ->
    (match e with
     | FLoad (_, w) ->
       if sees s w
       then let th = x.ft in
            let ge = s.f_w.w_ep in
            let stm = sw_stm s.f_w in
            if stm
            then let (p0, _) = adv_seen th stm ge [] in
                 let (th', f) = p0 in
                 Some (set_fthr s t (upd1 x th' PRet (app f (p :: []))))
            else if negb (Z.eqb th.t_ls ge)
                 then let (p0, _) = adv_seen th stm ge (p :: []) in
                      let (th', f) = p0 in
                      Some (set_fthr s t (upd1 x th' PRet f))
                 else Some
                        (set_fthr s t
                          (upd1 x
                            (thr_set_vec th OCur (app th.t_cur (p :: [])))
                            PRet []))
       else None
     | _ -> None)
  | _ -> None

(** val step_q : fstate -> tid0 -> fthr -> fevent -> fstate option **)

let step_q s t x e =
  match x.ft_pc with
  | PQLoad ->
    (match e with
     | FLoad (_, w) ->
       if sees s w
       then let st0 = s.f_w in
            let ge = st0.w_ep in
            let (p, _) = adv_seen x.ft (sw_stm st0) ge [] in
            let (th1, f1) = p in
            let th2 =
              if negb (Z.eqb ge th1.t_lsq)
              then thr_set_lsq_qs th1 ge Z0
              else th1
            in
            if Z.eqb th2.t_qs Z0
            then Some
                   (set_fthr s t (upd1 x th2 (PRmFsub ((CallQ st0), ge)) f1))
            else Some
                   (set_fthr s t
                     (upd1 x
                       (thr_set_lsq_qs th2 th2.t_lsq
                         (Z.add th2.t_qs (Zpos XH))) PRet f1))
       else None
     | _ -> None)
  | _ -> None

(** val step_epoch : fstate -> tid0 -> fthr -> fevent -> fstate option **)

let step_epoch s t x e =
  match x.ft_pc with
  | PRmFsub (c, cge) ->
    (match e with
     | FFetchSub (_, w) ->
       let old = s.f_w in
       if (&&) (sees s w) (Z.ltb Z0 old.w_P)
       then let s1 = set_w s (sw_dec_P old) in
            if Z.ltb (Zpos XH) old.w_P
            then Some (set_fthr s1 t (rm_return x c cge))
            else Some
                   (set_fthr s1 t
                     (with_pc x (PChXPrev (c, cge, (sw_stm old)))))
       else None
     | _ -> None)
  | PChXPrev (c, cge, stm) ->
    (match e with
     | FOXchg (_, l, h) ->
       (match l with
        | OPrev ->
          if Z.eqb h (ol_head s.f_oprev)
          then Some
                 (set_fthr (set_ol s OPrev []) t
                   (with_pc x (PChXCur (c, cge, stm, s.f_oprev))))
          else None
        | OCur -> None)
     | _ -> None)
  | PChXCur (c, cge, stm, tp) ->
    (match e with
     | FOXchg (_, l, h) ->
       (match l with
        | OPrev -> None
        | OCur ->
          if Z.eqb h (ol_head s.f_ocur)
          then let tc = s.f_ocur in
               let s1 = set_ol s OCur [] in
               if stm
               then Some
                      (set_fthr s1 t
                        (upd1 x x.ft (PChLoad (c, cge))
                          (app (ol_reqs tp) (ol_reqs tc))))
               else Some
                      (set_fthr s1 t
                        (upd1 x x.ft (PChMove (c, cge, tc)) (ol_reqs tp)))
          else None)
     | _ -> None)
  | PChMove (c, cge, tc) ->
    (match e with
     | FOMove (_, ex, de) ->
       if (&&) (Z.eqb ex Z0) (Z.eqb de (ol_head tc))
       then (match s.f_oprev with
             | [] ->
               Some
                 (set_fthr (set_ol s OPrev tc) t
                   (with_pc x (PChLoad (c, cge))))
             | o :: _ ->
               let (a, _) = o in
               Some (set_fthr s t (with_pc x (PChAppend (c, cge, tc, a)))))
       else None
     | _ -> None)
  | PChAppend (c, cge, tc, h) ->
    (match e with
     | FOAppend (_, d) ->
       if Z.eqb d (ol_head tc)
       then (match append_from h s.f_oprev tc with
             | Some l ->
               Some
                 (set_fthr (set_ol s OPrev l) t
                   (with_pc x (PChLoad (c, cge))))
             | None -> None)
       else None
     | _ -> None)
  | PChLoad (c, cge) ->
    (match e with
     | FLoad (_, w) ->
       if sees s w
       then Some (set_fthr s t (with_pc x (PChCas (c, cge, s.f_w))))
       else None
     | _ -> None)
  | PChCas (c, cge, old) ->
    (match e with
     | FCas (_, ex, de) ->
       let new0 = sw_next_epoch old in
       if (&&) (Z.eqb ex (sw_word old)) (Z.eqb de (sw_word new0))
       then if sw_eqb old s.f_w
            then Some
                   (set_fthr (bump_gep (set_w s new0)) t
                     (rm_return x c (ep_adv cge)))
            else Some (set_fthr s t (with_pc x (PChCas (c, cge, s.f_w))))
       else None
     | _ -> None)
  | _ -> None

(** val step_unreg : fstate -> tid0 -> fthr -> fevent -> fstate option **)

let step_unreg s t x e =
  match x.ft_pc with
  | PULoad u ->
    (match e with
     | FLoad (_, w) ->
       if sees s w
       then Some (set_fthr s t (with_pc x (u_decide (u_with_old u s.f_w))))
       else None
     | _ -> None)
  | PUCas u ->
    (match e with
     | FCas (_, ex, de) ->
       let old = u.u_old in
       let new0 = u_desired u in
       if (&&) (Z.eqb ex (sw_word old)) (Z.eqb de (sw_word new0))
       then if sw_eqb old s.f_w
            then if Z.eqb old.w_P Z0
                 then Some
                        (set_fthr (set_w s new0) t
                          (upd1 x x.ft (orph_next x.ft) []))
                 else let (p, _) = adv_seen x.ft (sw_stm old) old.w_ep [] in
                      let (th1, f1) = p in
                      Some
                      (set_fthr (set_w s new0) t
                        (upd1 x th1 (orph_next th1) f1))
            else Some
                   (set_fthr s t (with_pc x (u_decide (u_with_old u s.f_w))))
       else None
     | _ -> None)
  | _ -> None

(** val step_orph : fstate -> tid0 -> fthr -> fevent -> fstate option **)

let step_orph s t x e =
  match x.ft_pc with
  | POLoad l ->
    (match e with
     | FOLoad (_, l', h) ->
       if (&&) (olist_eqb l l') (Z.eqb h (ol_head (get_ol s l)))
       then Some (set_fthr s t (with_pc x (POCas (l, h))))
       else None
     | _ -> None)
  | POCas (l, nx) ->
    (match e with
     | FOCas (_, l', ex, de) ->
       if (&&) ((&&) (olist_eqb l l') (Z.eqb ex nx)) (negb (Z.eqb de Z0))
       then if Z.eqb nx (ol_head (get_ol s l))
            then let th = thr_set_vec x.ft l [] in
                 Some
                 (set_fthr
                   (set_ol s l ((de, (thr_vec x.ft l)) :: (get_ol s l))) t
                   (upd1 x th (orph_next th) []))
            else Some
                   (set_fthr s t
                     (with_pc x (POCas (l, (ol_head (get_ol s l))))))
       else None
     | _ -> None)
  | _ -> None

(** val fstep : fstate -> fevent -> fstate option **)

let fstep s e =
  let t = ev_tid e in
  if Nat.ltb t (length s.f_thr)
  then let x = get_fthr s t in
       (match e with
        | FFree (_, p) -> step_free s t x p
        | _ ->
          (match x.ft_free with
           | [] ->
             (match e with
              | FCall (_, o, arg) ->
                (match x.ft_pc with
                 | PIdle -> step_call s t x o arg
                 | _ -> None)
              | FRet (_, o) ->
                (match x.ft_pc with
                 | PRet -> step_ret s t x o
                 | _ -> None)
              | FAlloc (_, p) -> step_alloc s t x p
              | _ ->
                (match x.ft_pc with
                 | PIdle -> None
                 | PRet -> None
                 | PRegLoad -> step_reg s t x e
                 | PRegCas _ -> step_reg s t x e
                 | PRegSpin _ -> step_reg s t x e
                 | PRetObs _ -> step_retire s t x e
                 | PRetLoad _ -> step_retire s t x e
                 | PQLoad -> step_q s t x e
                 | PULoad _ -> step_unreg s t x e
                 | PUCas _ -> step_unreg s t x e
                 | POLoad _ -> step_orph s t x e
                 | POCas (_, _) -> step_orph s t x e
                 | _ -> step_epoch s t x e))
           | _ :: _ -> None))
  else None

(** val frun : fstate -> fevent list -> fstate option **)

let rec frun s = function
| [] -> Some s
| e :: tr' -> (match fstep s e with
               | Some s' -> frun s' tr'
               | None -> None)

(** val frun_diag : fstate -> fevent list -> nat -> fstate * nat option **)

let rec frun_diag s tr i =
  match tr with
  | [] -> (s, None)
  | e :: tr' ->
    (match fstep s e with
     | Some s' -> frun_diag s' tr' (S i)
     | None -> (s, (Some i)))

(** val fbad : fstate -> (ptr * tid0 list) list **)

let fbad s =
  s.f_bad

(** val pc_reqs : pc -> ptr list **)

let pc_reqs = function
| PRetLoad p0 -> p0 :: []
| PChXCur (_, _, _, tp) -> ol_reqs tp
| PChMove (_, _, tc) -> ol_reqs tc
| PChAppend (_, _, tc, _) -> ol_reqs tc
| _ -> []

(** val fpending : fstate -> ptr list **)

let fpending s =
  app
    (concat
      (map (fun x ->
        app x.ft.t_prev (app x.ft.t_cur (app (pc_reqs x.ft_pc) x.ft_free)))
        s.f_thr)) (app (ol_reqs s.f_oprev) (ol_reqs s.f_ocur))

type lop =
| LGet of z list
| LInsert of z list * z list
| LRemove of z list
| LNext of z list * bool * z list option
| LPrev of z list * bool * z list option

type lres =
| LVal of z list option
| LBool of bool
| LEntry of (z list * z list) option

type call = { c_op : lop; c_res : lres; c_inv : nat; c_ret : nat }

type smap = (z list * z list) list

(** val s_get : z list -> smap -> z list option **)

let rec s_get k = function
| [] -> None
| p :: m' -> let (k', v) = p in if lex_eqb k k' then Some v else s_get k m'

(** val s_del : z list -> smap -> smap **)

let rec s_del k = function
| [] -> []
| p :: m' ->
  let (k', v) = p in
  if lex_eqb k k' then s_del k m' else (k', v) :: (s_del k m')

(** val in_next : z list -> bool -> z list option -> z list -> bool **)

let in_next lo strict hi k =
  (&&) (if strict then lex_ltb lo k else lex_leb lo k)
    (match hi with
     | Some h -> lex_ltb k h
     | None -> true)

(** val in_prev : z list -> bool -> z list option -> z list -> bool **)

let in_prev hi strict lo k =
  (&&) (if strict then lex_ltb k hi else lex_leb k hi)
    (match lo with
     | Some l -> lex_ltb l k
     | None -> true)

(** val s_min : (z list -> bool) -> smap -> (z list * z list) option **)

let rec s_min p = function
| [] -> None
| p0 :: m' ->
  let (k, v) = p0 in
  let r = s_min p m' in
  if p k
  then (match r with
        | Some p1 ->
          let (k', _) = p1 in if lex_ltb k' k then r else Some (k, v)
        | None -> Some (k, v))
  else r

(** val s_max : (z list -> bool) -> smap -> (z list * z list) option **)

let rec s_max p = function
| [] -> None
| p0 :: m' ->
  let (k, v) = p0 in
  let r = s_max p m' in
  if p k
  then (match r with
        | Some p1 ->
          let (k', _) = p1 in if lex_ltb k k' then r else Some (k, v)
        | None -> Some (k, v))
  else r

(** val s_apply : smap -> lop -> smap * lres **)

let s_apply m = function
| LGet k -> (m, (LVal (s_get k m)))
| LInsert (k, v) ->
  (match s_get k m with
   | Some _ -> (m, (LBool false))
   | None -> (((k, v) :: m), (LBool true)))
| LRemove k ->
  (match s_get k m with
   | Some _ -> ((s_del k m), (LBool true))
   | None -> (m, (LBool false)))
| LNext (lo, strict, hi) -> (m, (LEntry (s_min (in_next lo strict hi) m)))
| LPrev (hi, strict, lo) -> (m, (LEntry (s_max (in_prev hi strict lo) m)))

(** val lres_eqb : lres -> lres -> bool **)

let lres_eqb a b =
  match a with
  | LVal o ->
    (match o with
     | Some x ->
       (match b with
        | LVal o0 -> (match o0 with
                      | Some y -> lex_eqb x y
                      | None -> false)
        | _ -> false)
     | None ->
       (match b with
        | LVal o0 -> (match o0 with
                      | Some _ -> false
                      | None -> true)
        | _ -> false))
  | LBool x -> (match b with
                | LBool y -> eqb x y
                | _ -> false)
  | LEntry o ->
    (match o with
     | Some p ->
       let (k, v) = p in
       (match b with
        | LEntry o0 ->
          (match o0 with
           | Some p0 ->
             let (k', v') = p0 in (&&) (lex_eqb k k') (lex_eqb v v')
           | None -> false)
        | _ -> false)
     | None ->
       (match b with
        | LEntry o0 -> (match o0 with
                        | Some _ -> false
                        | None -> true)
        | _ -> false))

(** val seq_legal : smap -> call list -> bool **)

let rec seq_legal m = function
| [] -> true
| c :: l' ->
  let (m', r) = s_apply m c.c_op in
  (&&) (lres_eqb r c.c_res) (seq_legal m' l')

(** val rt_ok : call list -> bool **)

let rec rt_ok = function
| [] -> true
| c :: l' ->
  (&&) (forallb (fun d -> negb (Nat.ltb d.c_ret c.c_inv)) l') (rt_ok l')

(** val nodupb : nat list -> bool **)

let rec nodupb = function
| [] -> true
| x :: l' -> (&&) (negb (existsb (Nat.eqb x) l')) (nodupb l')

(** val pick : call list -> nat list -> call list option **)

let pick h order =
  fold_right (fun i acc ->
    match nth_error h i with
    | Some c -> (match acc with
                 | Some l -> Some (c :: l)
                 | None -> None)
    | None -> None) (Some []) order

(** val lin_ok : smap -> call list -> nat list -> bool **)

let lin_ok init h order =
  (&&) ((&&) (Nat.eqb (length order) (length h)) (nodupb order))
    (match pick h order with
     | Some l -> (&&) (rt_ok l) (seq_legal init l)
     | None -> false)

type pexpr =
| PArg
| POther
| PSelf
| PExchangeOther
| PInc
| PDec
| PAddN
| PSubN

type pstmt =
| PInit of pexpr
| PSet of pexpr
| PReg
| PUnreg
| PSelfGuard
| PRetSelf
| PCopyToResult
| PCallSelf of string
| PCallResult of string
| PRetResult
| PRetPtr
| PRetDeref
| PRetIndex
| PRetBin of string
| PRetOtherPlusN
| POtherStmt of string

(** val find_pm :
    (string * pstmt list) list -> string -> pstmt list option **)

let rec find_pm tbl f =
  match tbl with
  | [] -> None
  | p :: tbl' -> let (n, b) = p in if eqb1 n f then Some b else find_pm tbl' f

type oid = nat

type pstate = { vals : (oid * z) list; reg : z list }

(** val lookup : oid -> (oid * z) list -> z option **)

let rec lookup i = function
| [] -> None
| p :: l' -> let (j, v) = p in if Nat.eqb i j then Some v else lookup i l'

(** val update : oid -> z -> (oid * z) list -> (oid * z) list **)

let rec update i v = function
| [] -> []
| p :: l' ->
  let (j, w) = p in
  if Nat.eqb i j then (j, v) :: l' else (j, w) :: (update i v l')

(** val remove_obj : oid -> (oid * z) list -> (oid * z) list **)

let rec remove_obj i = function
| [] -> []
| p :: l' ->
  let (j, w) = p in if Nat.eqb i j then l' else (j, w) :: (remove_obj i l')

(** val remove_one : z -> z list -> z list **)

let rec remove_one x = function
| [] -> []
| y :: l' -> if Z.eqb x y then l' else y :: (remove_one x l')

type pop =
| OpCtorPtr of oid * z
| OpCtorDefault of oid
| OpCtorCopy of oid * oid
| OpCtorMove of oid * oid
| OpAssignCopy of oid * oid
| OpAssignMove of oid * oid
| OpPreInc of oid
| OpPreDec of oid
| OpPostInc of oid * oid
| OpPostDec of oid * oid
| OpAddAssign of oid * z
| OpSubAssign of oid * z
| OpAdd of oid * oid * z
| OpSub of oid * oid * z
| OpDtor of oid

(** val eval : pexpr -> z -> z -> z -> z **)

let eval e self other arg =
  match e with
  | PArg -> arg
  | PSelf -> self
  | PInc -> Z.add self (Zpos XH)
  | PDec -> Z.sub self (Zpos XH)
  | PAddN -> Z.add self arg
  | PSubN -> Z.sub self arg
  | _ -> other

(** val run :
    (string * pstmt list) list -> nat -> pstmt list -> oid -> oid option -> z
    -> oid -> pstate -> pstate option **)

let rec run tbl fuel b self other arg res0 s =
  match fuel with
  | O -> None
  | S fuel' ->
    (match b with
     | [] -> Some s
     | st0 :: b' ->
       (match st0 with
        | PInit e ->
          let sv = match lookup self s.vals with
                   | Some v -> v
                   | None -> Z0 in
          let ov =
            match other with
            | Some o -> (match lookup o s.vals with
                         | Some v -> v
                         | None -> Z0)
            | None -> Z0
          in
          let v' = eval e sv ov arg in
          let vs =
            match st0 with
            | PInit _ ->
              (match lookup self s.vals with
               | Some _ -> update self v' s.vals
               | None -> (self, v') :: s.vals)
            | _ -> update self v' s.vals
          in
          let vs0 =
            match e with
            | PExchangeOther ->
              (match other with
               | Some o -> update o Z0 vs
               | None -> vs)
            | _ -> vs
          in
          run tbl fuel' b' self other arg res0 { vals = vs0; reg = s.reg }
        | PSet e ->
          let sv = match lookup self s.vals with
                   | Some v -> v
                   | None -> Z0 in
          let ov =
            match other with
            | Some o -> (match lookup o s.vals with
                         | Some v -> v
                         | None -> Z0)
            | None -> Z0
          in
          let v' = eval e sv ov arg in
          let vs =
            match st0 with
            | PInit _ ->
              (match lookup self s.vals with
               | Some _ -> update self v' s.vals
               | None -> (self, v') :: s.vals)
            | _ -> update self v' s.vals
          in
          let vs0 =
            match e with
            | PExchangeOther ->
              (match other with
               | Some o -> update o Z0 vs
               | None -> vs)
            | _ -> vs
          in
          run tbl fuel' b' self other arg res0 { vals = vs0; reg = s.reg }
        | PReg ->
          (match lookup self s.vals with
           | Some v ->
             run tbl fuel' b' self other arg res0 { vals = s.vals; reg =
               (if Z.eqb v Z0 then s.reg else v :: s.reg) }
           | None -> None)
        | PUnreg ->
          (match lookup self s.vals with
           | Some v ->
             run tbl fuel' b' self other arg res0 { vals = s.vals; reg =
               (if Z.eqb v Z0 then s.reg else remove_one v s.reg) }
           | None -> None)
        | PSelfGuard ->
          (match other with
           | Some o ->
             if Nat.eqb o self
             then Some s
             else run tbl fuel' b' self other arg res0 s
           | None -> None)
        | PCopyToResult ->
          (match find_pm tbl (String ((Ascii (true, true, false, false,
                   false, true, true, false)), (String ((Ascii (false, false,
                   true, false, true, true, true, false)), (String ((Ascii
                   (true, true, true, true, false, true, true, false)),
                   (String ((Ascii (false, true, false, false, true, true,
                   true, false)), (String ((Ascii (true, true, true, true,
                   true, false, true, false)), (String ((Ascii (true, true,
                   false, false, false, true, true, false)), (String ((Ascii
                   (true, true, true, true, false, true, true, false)),
                   (String ((Ascii (false, false, false, false, true, true,
                   true, false)), (String ((Ascii (true, false, false, true,
                   true, true, true, false)), EmptyString)))))))))))))))))) with
           | Some cb ->
             (match run tbl fuel' cb res0 (Some self) Z0 res0 s with
              | Some s' -> run tbl fuel' b' self other arg res0 s'
              | None -> None)
           | None -> None)
        | PCallSelf m ->
          (match find_pm tbl m with
           | Some mb ->
             (match run tbl fuel' mb self None arg res0 s with
              | Some s' -> run tbl fuel' b' self other arg res0 s'
              | None -> None)
           | None -> None)
        | PCallResult m ->
          (match find_pm tbl m with
           | Some mb ->
             (match run tbl fuel' mb res0 None arg res0 s with
              | Some s' -> run tbl fuel' b' self other arg res0 s'
              | None -> None)
           | None -> None)
        | POtherStmt _ -> None
        | _ -> Some s))

(** val call0 :
    (string * pstmt list) list -> string -> oid -> oid option -> z -> oid ->
    pstate -> pstate option **)

let call0 tbl name self other arg res0 s =
  match find_pm tbl name with
  | Some b ->
    run tbl (S (S (S (S (S (S (S (S (S (S (S (S O)))))))))))) b self other
      arg res0 s
  | None -> None

(** val pstep :
    (string * pstmt list) list -> pstate -> pop -> pstate option **)

let pstep tbl s = function
| OpCtorPtr (d, p) ->
  call0 tbl (String ((Ascii (true, true, false, false, false, true, true,
    false)), (String ((Ascii (false, false, true, false, true, true, true,
    false)), (String ((Ascii (true, true, true, true, false, true, true,
    false)), (String ((Ascii (false, true, false, false, true, true, true,
    false)), (String ((Ascii (true, true, true, true, true, false, true,
    false)), (String ((Ascii (false, false, false, false, true, true, true,
    false)), (String ((Ascii (false, false, true, false, true, true, true,
    false)), (String ((Ascii (false, true, false, false, true, true, true,
    false)), EmptyString)))))))))))))))) d None p d s
| OpCtorDefault d -> Some { vals = ((d, Z0) :: s.vals); reg = s.reg }
| OpCtorCopy (d, src) ->
  call0 tbl (String ((Ascii (true, true, false, false, false, true, true,
    false)), (String ((Ascii (false, false, true, false, true, true, true,
    false)), (String ((Ascii (true, true, true, true, false, true, true,
    false)), (String ((Ascii (false, true, false, false, true, true, true,
    false)), (String ((Ascii (true, true, true, true, true, false, true,
    false)), (String ((Ascii (true, true, false, false, false, true, true,
    false)), (String ((Ascii (true, true, true, true, false, true, true,
    false)), (String ((Ascii (false, false, false, false, true, true, true,
    false)), (String ((Ascii (true, false, false, true, true, true, true,
    false)), EmptyString)))))))))))))))))) d (Some src) Z0 d s
| OpCtorMove (d, src) ->
  call0 tbl (String ((Ascii (true, true, false, false, false, true, true,
    false)), (String ((Ascii (false, false, true, false, true, true, true,
    false)), (String ((Ascii (true, true, true, true, false, true, true,
    false)), (String ((Ascii (false, true, false, false, true, true, true,
    false)), (String ((Ascii (true, true, true, true, true, false, true,
    false)), (String ((Ascii (true, false, true, true, false, true, true,
    false)), (String ((Ascii (true, true, true, true, false, true, true,
    false)), (String ((Ascii (false, true, true, false, true, true, true,
    false)), (String ((Ascii (true, false, true, false, false, true, true,
    false)), EmptyString)))))))))))))))))) d (Some src) Z0 d s
| OpAssignCopy (d, src) ->
  call0 tbl (String ((Ascii (true, false, false, false, false, true, true,
    false)), (String ((Ascii (true, true, false, false, true, true, true,
    false)), (String ((Ascii (true, true, false, false, true, true, true,
    false)), (String ((Ascii (true, false, false, true, false, true, true,
    false)), (String ((Ascii (true, true, true, false, false, true, true,
    false)), (String ((Ascii (false, true, true, true, false, true, true,
    false)), (String ((Ascii (true, true, true, true, true, false, true,
    false)), (String ((Ascii (true, true, false, false, false, true, true,
    false)), (String ((Ascii (true, true, true, true, false, true, true,
    false)), (String ((Ascii (false, false, false, false, true, true, true,
    false)), (String ((Ascii (true, false, false, true, true, true, true,
    false)), EmptyString)))))))))))))))))))))) d (Some src) Z0 d s
| OpAssignMove (d, src) ->
  call0 tbl (String ((Ascii (true, false, false, false, false, true, true,
    false)), (String ((Ascii (true, true, false, false, true, true, true,
    false)), (String ((Ascii (true, true, false, false, true, true, true,
    false)), (String ((Ascii (true, false, false, true, false, true, true,
    false)), (String ((Ascii (true, true, true, false, false, true, true,
    false)), (String ((Ascii (false, true, true, true, false, true, true,
    false)), (String ((Ascii (true, true, true, true, true, false, true,
    false)), (String ((Ascii (true, false, true, true, false, true, true,
    false)), (String ((Ascii (true, true, true, true, false, true, true,
    false)), (String ((Ascii (false, true, true, false, true, true, true,
    false)), (String ((Ascii (true, false, true, false, false, true, true,
    false)), EmptyString)))))))))))))))))))))) d (Some src) Z0 d s
| OpPreInc d ->
  call0 tbl (String ((Ascii (false, false, false, false, true, true, true,
    false)), (String ((Ascii (false, true, false, false, true, true, true,
    false)), (String ((Ascii (true, false, true, false, false, true, true,
    false)), (String ((Ascii (true, true, true, true, true, false, true,
    false)), (String ((Ascii (true, false, false, true, false, true, true,
    false)), (String ((Ascii (false, true, true, true, false, true, true,
    false)), (String ((Ascii (true, true, false, false, false, true, true,
    false)), EmptyString)))))))))))))) d None Z0 d s
| OpPreDec d ->
  call0 tbl (String ((Ascii (false, false, false, false, true, true, true,
    false)), (String ((Ascii (false, true, false, false, true, true, true,
    false)), (String ((Ascii (true, false, true, false, false, true, true,
    false)), (String ((Ascii (true, true, true, true, true, false, true,
    false)), (String ((Ascii (false, false, true, false, false, true, true,
    false)), (String ((Ascii (true, false, true, false, false, true, true,
    false)), (String ((Ascii (true, true, false, false, false, true, true,
    false)), EmptyString)))))))))))))) d None Z0 d s
| OpPostInc (d, r) ->
  call0 tbl (String ((Ascii (false, false, false, false, true, true, true,
    false)), (String ((Ascii (true, true, true, true, false, true, true,
    false)), (String ((Ascii (true, true, false, false, true, true, true,
    false)), (String ((Ascii (false, false, true, false, true, true, true,
    false)), (String ((Ascii (true, true, true, true, true, false, true,
    false)), (String ((Ascii (true, false, false, true, false, true, true,
    false)), (String ((Ascii (false, true, true, true, false, true, true,
    false)), (String ((Ascii (true, true, false, false, false, true, true,
    false)), EmptyString)))))))))))))))) d None Z0 r s
| OpPostDec (d, r) ->
  call0 tbl (String ((Ascii (false, false, false, false, true, true, true,
    false)), (String ((Ascii (true, true, true, true, false, true, true,
    false)), (String ((Ascii (true, true, false, false, true, true, true,
    false)), (String ((Ascii (false, false, true, false, true, true, true,
    false)), (String ((Ascii (true, true, true, true, true, false, true,
    false)), (String ((Ascii (false, false, true, false, false, true, true,
    false)), (String ((Ascii (true, false, true, false, false, true, true,
    false)), (String ((Ascii (true, true, false, false, false, true, true,
    false)), EmptyString)))))))))))))))) d None Z0 r s
| OpAddAssign (d, n) ->
  call0 tbl (String ((Ascii (true, false, false, false, false, true, true,
    false)), (String ((Ascii (false, false, true, false, false, true, true,
    false)), (String ((Ascii (false, false, true, false, false, true, true,
    false)), (String ((Ascii (true, true, true, true, true, false, true,
    false)), (String ((Ascii (true, false, false, false, false, true, true,
    false)), (String ((Ascii (true, true, false, false, true, true, true,
    false)), (String ((Ascii (true, true, false, false, true, true, true,
    false)), (String ((Ascii (true, false, false, true, false, true, true,
    false)), (String ((Ascii (true, true, true, false, false, true, true,
    false)), (String ((Ascii (false, true, true, true, false, true, true,
    false)), EmptyString)))))))))))))))))))) d None n d s
| OpSubAssign (d, n) ->
  call0 tbl (String ((Ascii (true, true, false, false, true, true, true,
    false)), (String ((Ascii (true, false, true, false, true, true, true,
    false)), (String ((Ascii (false, true, false, false, false, true, true,
    false)), (String ((Ascii (true, true, true, true, true, false, true,
    false)), (String ((Ascii (true, false, false, false, false, true, true,
    false)), (String ((Ascii (true, true, false, false, true, true, true,
    false)), (String ((Ascii (true, true, false, false, true, true, true,
    false)), (String ((Ascii (true, false, false, true, false, true, true,
    false)), (String ((Ascii (true, true, true, false, false, true, true,
    false)), (String ((Ascii (false, true, true, true, false, true, true,
    false)), EmptyString)))))))))))))))))))) d None n d s
| OpAdd (d, r, n) ->
  call0 tbl (String ((Ascii (true, false, false, false, false, true, true,
    false)), (String ((Ascii (false, false, true, false, false, true, true,
    false)), (String ((Ascii (false, false, true, false, false, true, true,
    false)), EmptyString)))))) d None n r s
| OpSub (d, r, n) ->
  call0 tbl (String ((Ascii (true, true, false, false, true, true, true,
    false)), (String ((Ascii (true, false, true, false, true, true, true,
    false)), (String ((Ascii (false, true, false, false, false, true, true,
    false)), EmptyString)))))) d None n r s
| OpDtor d ->
  (match call0 tbl (String ((Ascii (false, false, true, false, false, true,
           true, false)), (String ((Ascii (false, false, true, false, true,
           true, true, false)), (String ((Ascii (true, true, true, true,
           false, true, true, false)), (String ((Ascii (false, true, false,
           false, true, true, true, false)), EmptyString)))))))) d None Z0 d s with
   | Some s' -> Some { vals = (remove_obj d s'.vals); reg = s'.reg }
   | None -> None)

(** val fresh : oid -> pstate -> bool **)

let fresh i s =
  match lookup i s.vals with
  | Some _ -> false
  | None -> true

(** val live : oid -> pstate -> bool **)

let live i s =
  negb (fresh i s)

(** val pop_ok : pstate -> pop -> bool **)

let pop_ok s = function
| OpCtorPtr (d, _) -> fresh d s
| OpCtorDefault d -> fresh d s
| OpCtorCopy (d, src) -> (&&) (fresh d s) (live src s)
| OpCtorMove (d, src) -> (&&) (fresh d s) (live src s)
| OpAssignCopy (d, src) ->
  (&&) ((&&) (live d s) (live src s)) (negb (Nat.eqb d src))
| OpAssignMove (d, src) ->
  (&&) ((&&) (live d s) (live src s)) (negb (Nat.eqb d src))
| OpPreInc d -> live d s
| OpPreDec d -> live d s
| OpPostInc (d, r) -> (&&) (live d s) (fresh r s)
| OpPostDec (d, r) -> (&&) (live d s) (fresh r s)
| OpAddAssign (d, _) -> live d s
| OpSubAssign (d, _) -> live d s
| OpAdd (d, r, _) -> (&&) (live d s) (fresh r s)
| OpSub (d, r, _) -> (&&) (live d s) (fresh r s)
| OpDtor d -> live d s

(** val pinit : pstate **)

let pinit =
  { vals = []; reg = [] }

(** val quiescent_allowed : pstate -> bool **)

let quiescent_allowed s =
  match s.reg with
  | [] -> true
  | _ :: _ -> false

(** val ptr_methods : (string * pstmt list) list **)

let ptr_methods =
  ((String ((Ascii (true, true, false, false, false, true, true, false)),
    (String ((Ascii (false, false, true, false, true, true, true, false)),
    (String ((Ascii (true, true, true, true, false, true, true, false)),
    (String ((Ascii (false, true, false, false, true, true, true, false)),
    (String ((Ascii (true, true, true, true, true, false, true, false)),
    (String ((Ascii (false, false, false, false, true, true, true, false)),
    (String ((Ascii (false, false, true, false, true, true, true, false)),
    (String ((Ascii (false, true, false, false, true, true, true, false)),
    EmptyString)))))))))))))))), ((PInit PArg) :: (PReg :: []))) :: (((String
    ((Ascii (true, true, false, false, false, true, true, false)), (String
    ((Ascii (false, false, true, false, true, true, true, false)), (String
    ((Ascii (true, true, true, true, false, true, true, false)), (String
    ((Ascii (false, true, false, false, true, true, true, false)), (String
    ((Ascii (true, true, true, true, true, false, true, false)), (String
    ((Ascii (true, true, false, false, false, true, true, false)), (String
    ((Ascii (true, true, true, true, false, true, true, false)), (String
    ((Ascii (false, false, false, false, true, true, true, false)), (String
    ((Ascii (true, false, false, true, true, true, true, false)),
    EmptyString)))))))))))))))))), ((PInit
    POther) :: (PReg :: []))) :: (((String ((Ascii (true, true, false, false,
    false, true, true, false)), (String ((Ascii (false, false, true, false,
    true, true, true, false)), (String ((Ascii (true, true, true, true,
    false, true, true, false)), (String ((Ascii (false, true, false, false,
    true, true, true, false)), (String ((Ascii (true, true, true, true, true,
    false, true, false)), (String ((Ascii (true, false, true, true, false,
    true, true, false)), (String ((Ascii (true, true, true, true, false,
    true, true, false)), (String ((Ascii (false, true, true, false, true,
    true, true, false)), (String ((Ascii (true, false, true, false, false,
    true, true, false)), EmptyString)))))))))))))))))), ((PInit
    PExchangeOther) :: [])) :: (((String ((Ascii (false, false, true, false,
    false, true, true, false)), (String ((Ascii (false, false, true, false,
    true, true, true, false)), (String ((Ascii (true, true, true, true,
    false, true, true, false)), (String ((Ascii (false, true, false, false,
    true, true, true, false)), EmptyString)))))))),
    (PUnreg :: [])) :: (((String ((Ascii (true, false, false, false, false,
    true, true, false)), (String ((Ascii (true, true, false, false, true,
    true, true, false)), (String ((Ascii (true, true, false, false, true,
    true, true, false)), (String ((Ascii (true, false, false, true, false,
    true, true, false)), (String ((Ascii (true, true, true, false, false,
    true, true, false)), (String ((Ascii (false, true, true, true, false,
    true, true, false)), (String ((Ascii (true, true, true, true, true,
    false, true, false)), (String ((Ascii (true, true, false, false, false,
    true, true, false)), (String ((Ascii (true, true, true, true, false,
    true, true, false)), (String ((Ascii (false, false, false, false, true,
    true, true, false)), (String ((Ascii (true, false, false, true, true,
    true, true, false)), EmptyString)))))))))))))))))))))),
    (PSelfGuard :: (PUnreg :: ((PSet
    POther) :: (PReg :: (PRetSelf :: [])))))) :: (((String ((Ascii (true,
    false, false, false, false, true, true, false)), (String ((Ascii (true,
    true, false, false, true, true, true, false)), (String ((Ascii (true,
    true, false, false, true, true, true, false)), (String ((Ascii (true,
    false, false, true, false, true, true, false)), (String ((Ascii (true,
    true, true, false, false, true, true, false)), (String ((Ascii (false,
    true, true, true, false, true, true, false)), (String ((Ascii (true,
    true, true, true, true, false, true, false)), (String ((Ascii (true,
    false, true, true, false, true, true, false)), (String ((Ascii (true,
    true, true, true, false, true, true, false)), (String ((Ascii (false,
    true, true, false, true, true, true, false)), (String ((Ascii (true,
    false, true, false, false, true, true, false)),
    EmptyString)))))))))))))))))))))), (PUnreg :: ((PSet
    PExchangeOther) :: (PRetSelf :: [])))) :: (((String ((Ascii (false,
    false, true, false, false, true, true, false)), (String ((Ascii (true,
    false, true, false, false, true, true, false)), (String ((Ascii (false,
    true, false, false, true, true, true, false)), (String ((Ascii (true,
    false, true, false, false, true, true, false)), (String ((Ascii (false,
    true, true, false, false, true, true, false)), EmptyString)))))))))),
    (PRetDeref :: [])) :: (((String ((Ascii (true, false, false, true, false,
    true, true, false)), (String ((Ascii (false, true, true, true, false,
    true, true, false)), (String ((Ascii (false, false, true, false, false,
    true, true, false)), (String ((Ascii (true, false, true, false, false,
    true, true, false)), (String ((Ascii (false, false, false, true, true,
    true, true, false)), EmptyString)))))))))),
    (PRetIndex :: [])) :: (((String ((Ascii (true, false, false, false,
    false, true, true, false)), (String ((Ascii (false, true, false, false,
    true, true, true, false)), (String ((Ascii (false, true, false, false,
    true, true, true, false)), (String ((Ascii (true, true, true, true,
    false, true, true, false)), (String ((Ascii (true, true, true, false,
    true, true, true, false)), EmptyString)))))))))),
    (PRetPtr :: [])) :: (((String ((Ascii (false, false, false, false, true,
    true, true, false)), (String ((Ascii (false, true, false, false, true,
    true, true, false)), (String ((Ascii (true, false, true, false, false,
    true, true, false)), (String ((Ascii (true, true, true, true, true,
    false, true, false)), (String ((Ascii (true, false, false, true, false,
    true, true, false)), (String ((Ascii (false, true, true, true, false,
    true, true, false)), (String ((Ascii (true, true, false, false, false,
    true, true, false)), EmptyString)))))))))))))), (PUnreg :: ((PSet
    PInc) :: (PReg :: (PRetSelf :: []))))) :: (((String ((Ascii (false,
    false, false, false, true, true, true, false)), (String ((Ascii (true,
    true, true, true, false, true, true, false)), (String ((Ascii (true,
    true, false, false, true, true, true, false)), (String ((Ascii (false,
    false, true, false, true, true, true, false)), (String ((Ascii (true,
    true, true, true, true, false, true, false)), (String ((Ascii (true,
    false, false, true, false, true, true, false)), (String ((Ascii (false,
    true, true, true, false, true, true, false)), (String ((Ascii (true,
    true, false, false, false, true, true, false)),
    EmptyString)))))))))))))))), (PCopyToResult :: ((PCallSelf (String
    ((Ascii (false, false, false, false, true, true, true, false)), (String
    ((Ascii (false, true, false, false, true, true, true, false)), (String
    ((Ascii (true, false, true, false, false, true, true, false)), (String
    ((Ascii (true, true, true, true, true, false, true, false)), (String
    ((Ascii (true, false, false, true, false, true, true, false)), (String
    ((Ascii (false, true, true, true, false, true, true, false)), (String
    ((Ascii (true, true, false, false, false, true, true, false)),
    EmptyString))))))))))))))) :: (PRetResult :: [])))) :: (((String ((Ascii
    (false, false, false, false, true, true, true, false)), (String ((Ascii
    (false, true, false, false, true, true, true, false)), (String ((Ascii
    (true, false, true, false, false, true, true, false)), (String ((Ascii
    (true, true, true, true, true, false, true, false)), (String ((Ascii
    (false, false, true, false, false, true, true, false)), (String ((Ascii
    (true, false, true, false, false, true, true, false)), (String ((Ascii
    (true, true, false, false, false, true, true, false)),
    EmptyString)))))))))))))), (PUnreg :: ((PSet
    PDec) :: (PReg :: (PRetSelf :: []))))) :: (((String ((Ascii (false,
    false, false, false, true, true, true, false)), (String ((Ascii (true,
    true, true, true, false, true, true, false)), (String ((Ascii (true,
    true, false, false, true, true, true, false)), (String ((Ascii (false,
    false, true, false, true, true, true, false)), (String ((Ascii (true,
    true, true, true, true, false, true, false)), (String ((Ascii (false,
    false, true, false, false, true, true, false)), (String ((Ascii (true,
    false, true, false, false, true, true, false)), (String ((Ascii (true,
    true, false, false, false, true, true, false)),
    EmptyString)))))))))))))))), (PCopyToResult :: ((PCallSelf (String
    ((Ascii (false, false, false, false, true, true, true, false)), (String
    ((Ascii (false, true, false, false, true, true, true, false)), (String
    ((Ascii (true, false, true, false, false, true, true, false)), (String
    ((Ascii (true, true, true, true, true, false, true, false)), (String
    ((Ascii (false, false, true, false, false, true, true, false)), (String
    ((Ascii (true, false, true, false, false, true, true, false)), (String
    ((Ascii (true, true, false, false, false, true, true, false)),
    EmptyString))))))))))))))) :: (PRetResult :: [])))) :: (((String ((Ascii
    (true, false, false, false, false, true, true, false)), (String ((Ascii
    (false, false, true, false, false, true, true, false)), (String ((Ascii
    (false, false, true, false, false, true, true, false)), (String ((Ascii
    (true, true, true, true, true, false, true, false)), (String ((Ascii
    (true, false, false, false, false, true, true, false)), (String ((Ascii
    (true, true, false, false, true, true, true, false)), (String ((Ascii
    (true, true, false, false, true, true, true, false)), (String ((Ascii
    (true, false, false, true, false, true, true, false)), (String ((Ascii
    (true, true, true, false, false, true, true, false)), (String ((Ascii
    (false, true, true, true, false, true, true, false)),
    EmptyString)))))))))))))))))))), (PUnreg :: ((PSet
    PAddN) :: (PReg :: (PRetSelf :: []))))) :: (((String ((Ascii (true,
    false, false, false, false, true, true, false)), (String ((Ascii (false,
    false, true, false, false, true, true, false)), (String ((Ascii (false,
    false, true, false, false, true, true, false)), EmptyString)))))),
    (PCopyToResult :: ((PCallResult (String ((Ascii (true, false, false,
    false, false, true, true, false)), (String ((Ascii (false, false, true,
    false, false, true, true, false)), (String ((Ascii (false, false, true,
    false, false, true, true, false)), (String ((Ascii (true, true, true,
    true, true, false, true, false)), (String ((Ascii (true, false, false,
    false, false, true, true, false)), (String ((Ascii (true, true, false,
    false, true, true, true, false)), (String ((Ascii (true, true, false,
    false, true, true, true, false)), (String ((Ascii (true, false, false,
    true, false, true, true, false)), (String ((Ascii (true, true, true,
    false, false, true, true, false)), (String ((Ascii (false, true, true,
    true, false, true, true, false)),
    EmptyString))))))))))))))))))))) :: (PRetResult :: [])))) :: (((String
    ((Ascii (true, true, false, false, true, true, true, false)), (String
    ((Ascii (true, false, true, false, true, true, true, false)), (String
    ((Ascii (false, true, false, false, false, true, true, false)), (String
    ((Ascii (true, true, true, true, true, false, true, false)), (String
    ((Ascii (true, false, false, false, false, true, true, false)), (String
    ((Ascii (true, true, false, false, true, true, true, false)), (String
    ((Ascii (true, true, false, false, true, true, true, false)), (String
    ((Ascii (true, false, false, true, false, true, true, false)), (String
    ((Ascii (true, true, true, false, false, true, true, false)), (String
    ((Ascii (false, true, true, true, false, true, true, false)),
    EmptyString)))))))))))))))))))), (PUnreg :: ((PSet
    PSubN) :: (PReg :: (PRetSelf :: []))))) :: (((String ((Ascii (true, true,
    false, false, true, true, true, false)), (String ((Ascii (true, false,
    true, false, true, true, true, false)), (String ((Ascii (false, true,
    false, false, false, true, true, false)), EmptyString)))))),
    (PCopyToResult :: ((PCallResult (String ((Ascii (true, true, false,
    false, true, true, true, false)), (String ((Ascii (true, false, true,
    false, true, true, true, false)), (String ((Ascii (false, true, false,
    false, false, true, true, false)), (String ((Ascii (true, true, true,
    true, true, false, true, false)), (String ((Ascii (true, false, false,
    false, false, true, true, false)), (String ((Ascii (true, true, false,
    false, true, true, true, false)), (String ((Ascii (true, true, false,
    false, true, true, true, false)), (String ((Ascii (true, false, false,
    true, false, true, true, false)), (String ((Ascii (true, true, true,
    false, false, true, true, false)), (String ((Ascii (false, true, true,
    true, false, true, true, false)),
    EmptyString))))))))))))))))))))) :: (PRetResult :: [])))) :: (((String
    ((Ascii (false, false, true, false, false, true, true, false)), (String
    ((Ascii (true, false, false, true, false, true, true, false)), (String
    ((Ascii (false, true, true, false, false, true, true, false)), (String
    ((Ascii (false, true, true, false, false, true, true, false)),
    EmptyString)))))))), ((PRetBin (String ((Ascii (true, false, true, true,
    false, true, false, false)), EmptyString))) :: [])) :: (((String ((Ascii
    (true, false, true, false, false, true, true, false)), (String ((Ascii
    (true, false, false, false, true, true, true, false)), EmptyString)))),
    ((PRetBin (String ((Ascii (true, false, true, true, true, true, false,
    false)), (String ((Ascii (true, false, true, true, true, true, false,
    false)), EmptyString))))) :: [])) :: (((String ((Ascii (false, false,
    true, true, false, true, true, false)), (String ((Ascii (true, false,
    true, false, false, true, true, false)), EmptyString)))), ((PRetBin
    (String ((Ascii (false, false, true, true, true, true, false, false)),
    (String ((Ascii (true, false, true, true, true, true, false, false)),
    EmptyString))))) :: [])) :: (((String ((Ascii (true, true, true, false,
    false, true, true, false)), (String ((Ascii (true, false, true, false,
    false, true, true, false)), EmptyString)))), ((PRetBin (String ((Ascii
    (false, true, true, true, true, true, false, false)), (String ((Ascii
    (true, false, true, true, true, true, false, false)),
    EmptyString))))) :: [])) :: (((String ((Ascii (false, false, true, true,
    false, true, true, false)), (String ((Ascii (false, false, true, false,
    true, true, true, false)), EmptyString)))), ((PRetBin (String ((Ascii
    (false, false, true, true, true, true, false, false)),
    EmptyString))) :: [])) :: (((String ((Ascii (true, true, true, false,
    false, true, true, false)), (String ((Ascii (false, false, true, false,
    true, true, true, false)), EmptyString)))), ((PRetBin (String ((Ascii
    (false, true, true, true, true, true, false, false)),
    EmptyString))) :: [])) :: (((String ((Ascii (true, true, true, false,
    false, true, true, false)), (String ((Ascii (true, false, true, false,
    false, true, true, false)), (String ((Ascii (false, false, true, false,
    true, true, true, false)), EmptyString)))))),
    (PRetPtr :: [])) :: [])))))))))))))))))))))))
