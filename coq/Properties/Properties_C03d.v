(** C03, writer side: histories produced by the writers' atomic commits
    (Olc/WriteModel.v) satisfy the lock discipline, W1 and W2 that the reader
    theorem (Olc/ReadProofs.reader_linearizable) assumes; every commit changes
    the abstract map exactly like insert / remove. *)
From Coq Require Import List ZArith Bool Arith.
From Unodb Require Import Lock.LockModel Olc.ReadModel Olc.ReadProofs Olc.WriteModel Olc.WriteShapes Olc.WriteProofs.
Import ListNotations.

(** the insert commits: add_leaf (S1), root_insert (S3), leaf_split (S4),
    replace_ins (S5 growth), prefix_split (S6); the remove commits: remove_leaf
    (S2), root_remove (S3), replace_rem (S5 shrink), collapse (S7).  S4-S7 act
    on a slot: the root pointer or a child slot of the parent.

    every insert commit keeps the tree well-formed, is a good step (cells
    change only with their word, W1, W2) and adds exactly k -> v to the map *)
Theorem C03_insert_commit : forall k v g g', WF g -> ins_commit k v g g' ->
  step_ok g g' /\ insert_effect k v g g'.
Proof. exact ins_commit_ok. Qed.
Print Assumptions C03_insert_commit.

Theorem C03_remove_commit : forall k g g', WF g -> rem_commit k g g' ->
  step_ok g g' /\ remove_effect k g g'.
Proof. exact rem_commit_ok. Qed.
Print Assumptions C03_remove_commit.

(** a generated history obeys the lock discipline and W1; W2 holds with one
    table for all moments up to any chosen T (the history frozen at T) *)
Theorem C03_generated_conditions : forall H, generated H ->
  disciplined H /\ stays_reachable H /\ forall T, fullpath_stable (freeze H T).
Proof. exact generated_conditions. Qed.
Print Assumptions C03_generated_conditions.

(** a completed try_get on a generated history is linearizable *)
Theorem C03_generated_reader : forall H k rn r, generated H -> valid_run H k rn r ->
  exists T, (r_lock rn <= T <= last_moment rn)%nat /\ lookup (H T) k r.
Proof. exact generated_reader_linearizable. Qed.
Print Assumptions C03_generated_reader.

(** the map changes only at commits, there like insert / remove *)
Theorem C03_generated_map : forall H, generated H -> forall t,
  H (S t) = H t \/
  (exists k v, insert_effect k v (H t) (H (S t))) \/
  (exists k, remove_effect k (H t) (H (S t))).
Proof. exact generated_map_steps. Qed.
Print Assumptions C03_generated_map.
