(** C10b — tie of the sequential ART model's node-class constants to the source.

    The model (Art/ArtModel.v) has [cap], [min_size], [larger], [smaller] and
    [prefix_capacity] written by hand.  Gen/GenSizes.v is regenerated on every
    run (tools/gen.py sizes): the values clang folds for
    basic_inode_{4,16,48,256}::capacity / ::min_size, for the capacities of
    their larger_derived_type / smaller_derived_type, for key_prefix_capacity
    and for inode_48's empty_child, taken from db and olc_db with u64 and
    key_view keys (the generator fails when the four disagree). *)
From Coq Require Import List ZArith Bool.
From Unodb Require Import Art.ArtModel Gen.GenSizes Gen.GenKeyPrefix Art.ArtSizesBridge.
Local Open Scope Z_scope.

Theorem C10b_capacities :
  Z.of_nat (cap C4) = gs_i4_capacity /\ Z.of_nat (cap C16) = gs_i16_capacity /\
  Z.of_nat (cap C48) = gs_i48_capacity /\ Z.of_nat (cap C256) = gs_i256_capacity.
Proof. exact sizes_capacities. Qed.
Print Assumptions C10b_capacities.

Theorem C10b_min_sizes :
  Z.of_nat (min_size C4) = gs_i4_min_size /\ Z.of_nat (min_size C16) = gs_i16_min_size /\
  Z.of_nat (min_size C48) = gs_i48_min_size /\ Z.of_nat (min_size C256) = gs_i256_min_size.
Proof. exact sizes_min_sizes. Qed.
Print Assumptions C10b_min_sizes.

(** [larger] / [smaller] name the classes the source's larger_derived_type /
    smaller_derived_type name (identified by their capacities) *)
Theorem C10b_larger_smaller :
  Z.of_nat (cap (larger C4)) = gs_i4_larger_capacity /\ Z.of_nat (cap (larger C16)) = gs_i16_larger_capacity /\
  Z.of_nat (cap (larger C48)) = gs_i48_larger_capacity /\
  Z.of_nat (cap (smaller C16)) = gs_i16_smaller_capacity /\ Z.of_nat (cap (smaller C48)) = gs_i48_smaller_capacity /\
  Z.of_nat (cap (smaller C256)) = gs_i256_smaller_capacity.
Proof. exact sizes_larger_smaller. Qed.
Print Assumptions C10b_larger_smaller.

(** the shrink threshold of a class is the capacity of the class below plus
    one, in the model and in the source *)
Theorem C10b_min_is_smaller_cap_plus_1 :
  (forall c, c <> C256 -> min_size (larger c) = S (cap c)) /\
  gs_i16_min_size = gs_i4_capacity + 1 /\ gs_i48_min_size = gs_i16_capacity + 1 /\
  gs_i256_min_size = gs_i48_capacity + 1.
Proof. exact sizes_min_is_smaller_cap_plus_1. Qed.
Print Assumptions C10b_min_is_smaller_cap_plus_1.

Theorem C10b_min_below_cap : forall c, (2 <= min_size c < cap c)%nat.
Proof. exact sizes_min_below_cap. Qed.
Print Assumptions C10b_min_below_cap.

(** key_prefix_capacity, also equal to the constant GenKeyPrefix.v reads *)
Theorem C10b_prefix_capacity :
  Z.of_nat prefix_capacity = gs_key_prefix_capacity /\ gs_key_prefix_capacity = kp_capacity.
Proof. exact sizes_prefix_capacity. Qed.
Print Assumptions C10b_prefix_capacity.

(** inode_48's empty_child marker is a byte value that is not a slot index *)
Theorem C10b_empty_child : Z.of_nat (cap C48) <= gs_i48_empty_child < 256.
Proof. exact sizes_empty_child. Qed.
Print Assumptions C10b_empty_child.
