(** C02b — tie of the key order to the source.

    The models order keys by [Base.Lex.lex_compare] on byte lists.  The C++
    orders them with [detail::compare] (std::min, std::memcmp over the shared
    length, length tie-break) and [basic_art_key<KeyType>::cmp].
    Gen/GenCompare.v is regenerated from art_internal.hpp's AST on every run
    (tools/gen.py compare, tools/cxx2v_mem.py): pointers are the byte lists
    they point to, [memcmp a b n] compares the first n bytes and is defined
    when both regions have them (Base/MemPrims.v), a key_view is the list of
    bytes it views, [&key] of an integral key is its little-endian object
    bytes.  [sign_of] maps Lt / Eq / Gt to -1 / 0 / 1.  Every theorem also
    states the generated [_defined] condition: memcmp reads inside the regions
    it is given.

    [&key] of a key_view key (the bytes of the span OBJECT - defect D1 of the
    pinned tree) translates to [span_object_bytes key_addr key] with the
    buffer address as a further parameter of the generated function; the
    statements below then no longer type-check. *)
From Coq Require Import List ZArith Bool.
From Unodb Require Import Base.Lex Base.Bytes Base.MemPrims Gen.GenCompare Art.ArtCompareBridge.
Import ListNotations.
Local Open Scope Z_scope.

(** compare(a, alen, b, blen) on regions of exactly alen / blen bytes is the
    lexicographic comparison.  (Stated for all integer lists; the C++ reads
    unsigned bytes, so the faithful domain is [bytes_ok a], [bytes_ok b].) *)
Theorem C02b_compare_is_lex : forall a b,
  ak_compare_defined a (len a) b (len b) = true /\
  ak_compare a (len a) b (len b) = sign_of (lex_compare a b).
Proof. exact bridge_ak_compare. Qed.
Print Assumptions C02b_compare_is_lex.

(** bytes of the regions beyond the stated lengths are neither read nor relevant *)
Theorem C02b_compare_window : forall a alen b blen,
  0 <= alen <= len a -> 0 <= blen <= len b ->
  ak_compare_defined a alen b blen = true /\
  ak_compare a alen b blen = sign_of (lex_compare (firstn (Z.to_nat alen) a) (firstn (Z.to_nat blen) b)).
Proof. exact bridge_ak_compare_window. Qed.
Print Assumptions C02b_compare_window.

Example C02b_compare_window_nonvacuous :
  0 <= 2 <= len [1; 2; 9] /\ 0 <= 3 <= len [1; 2; 3; 200] /\
  ak_compare [1; 2; 9] 2 [1; 2; 3; 200] 3 = -1 /\ ak_compare [1; 2; 9] 2 [1; 2; 3] 2 = 0 /\
  ak_compare [1; 2; 9] 3 [1; 2; 3] 3 = 1.
Proof. vm_compute. repeat split; congruence. Qed.

(** compare(key_view, key_view) *)
Theorem C02b_compare_kv : forall a b,
  ak_compare_kv_defined a b = true /\ ak_compare_kv a b = sign_of (lex_compare a b).
Proof. exact bridge_ak_compare_kv. Qed.
Print Assumptions C02b_compare_kv.

Theorem C02b_compare_kv_lt : forall a b, ak_compare_kv a b < 0 <-> lex_lt a b.
Proof. exact ak_compare_kv_lt. Qed.
Print Assumptions C02b_compare_kv_lt.

Theorem C02b_compare_kv_eq : forall a b, ak_compare_kv a b = 0 <-> a = b.
Proof. exact ak_compare_kv_eq. Qed.
Print Assumptions C02b_compare_kv_eq.

Theorem C02b_compare_kv_gt : forall a b, 0 < ak_compare_kv a b <-> lex_lt b a.
Proof. exact ak_compare_kv_gt. Qed.
Print Assumptions C02b_compare_kv_gt.

(** basic_art_key<key_view>: constructed from k1 / k2, both cmp overloads
    compare the viewed bytes (receiver k1 first).  Generated functions take
    the receiver's fields last. *)
Theorem C02b_cmp_key_view : forall k1 k2,
  ak_kv_cmp_key_defined (ak_kv_make k2) (ak_kv_make k1) = true /\
  ak_kv_cmp_key (ak_kv_make k2) (ak_kv_make k1) = sign_of (lex_compare k1 k2).
Proof. exact bridge_ak_kv_cmp_key. Qed.
Print Assumptions C02b_cmp_key_view.

Theorem C02b_cmp_key_view_view : forall k1 v,
  ak_kv_cmp_view_defined v (ak_kv_make k1) = true /\
  ak_kv_cmp_view v (ak_kv_make k1) = sign_of (lex_compare k1 v).
Proof. exact bridge_ak_kv_cmp_view. Qed.
Print Assumptions C02b_cmp_key_view_view.

(** basic_art_key<std::uint64_t>: the constructor byte-swaps, so the object
    bytes are the big-endian bytes of the original value ... *)
Theorem C02b_u64_key_bytes : forall k,
  ak_u64_make_defined k = true /\ word64 (ak_u64_make k) /\
  int_object_bytes 8 (ak_u64_make k) = be_bytes 8 k.
Proof. exact bridge_ak_u64_make. Qed.
Print Assumptions C02b_u64_key_bytes.

(** ... and cmp orders keys by the numeric value of the ORIGINAL keys *)
Theorem C02b_cmp_u64 : forall k1 k2, word64 k1 -> word64 k2 ->
  ak_u64_cmp_key_defined (ak_u64_make k2) (ak_u64_make k1) = true /\
  ak_u64_cmp_key (ak_u64_make k2) (ak_u64_make k1) = sign_of (Z.compare k1 k2).
Proof. exact bridge_ak_u64_cmp_key. Qed.
Print Assumptions C02b_cmp_u64.

(** cmp(key_view) of a u64 key: its 8 big-endian bytes against the viewed bytes *)
Theorem C02b_cmp_u64_view : forall k1 v, word64 k1 ->
  ak_u64_cmp_view_defined v (ak_u64_make k1) = true /\
  ak_u64_cmp_view v (ak_u64_make k1) = sign_of (lex_compare (be_bytes 8 k1) v).
Proof. exact bridge_ak_u64_cmp_view. Qed.
Print Assumptions C02b_cmp_u64_view.

Theorem C02b_cmp_u64_view_encoded : forall k1 k2, word64 k1 -> word64 k2 ->
  ak_u64_cmp_view (be_bytes 8 k2) (ak_u64_make k1) = sign_of (Z.compare k1 k2).
Proof. exact bridge_ak_u64_cmp_view_encoded. Qed.
Print Assumptions C02b_cmp_u64_view_encoded.

(** non-vacuity: 258 < 65536 although the little-endian object bytes of the
    unswapped values ([2;1;0;...] and [0;0;1;...]) are ordered the other way *)
Example C02b_cmp_u64_nonvacuous :
  word64 258 /\ word64 65536 /\
  ak_u64_cmp_key (ak_u64_make 65536) (ak_u64_make 258) = -1 /\
  ak_u64_cmp_key (ak_u64_make 258) (ak_u64_make 65536) = 1 /\
  ak_u64_cmp_key (ak_u64_make 258) (ak_u64_make 258) = 0 /\
  lex_compare (int_object_bytes 8 258) (int_object_bytes 8 65536) = Gt /\
  ak_u64_cmp_view [0; 0; 0; 0; 0; 0; 1; 2; 0] (ak_u64_make 258) = -1.
Proof. unfold word64. vm_compute. repeat split; congruence. Qed.

(** why the translator does not take the object bytes of a key_view for the
    key bytes: they order equal keys by the address of their buffers (D1) *)
Theorem C02b_span_object_bytes_depend_on_address :
  exists k a1 a2, lex_compare (span_object_bytes a1 k) (span_object_bytes a2 k) = Lt /\
                  lex_compare (span_object_bytes a2 k) (span_object_bytes a1 k) = Gt.
Proof. exact span_object_bytes_depend_on_address. Qed.
Print Assumptions C02b_span_object_bytes_depend_on_address.
