(** C11b — the encoder's float order ([ftotal_lt], proved order-preserving for
    the key encoding in C11) against the IEEE-754 semantics of Flocq
    ([Bcompare] / [is_nan] / [is_finite] / [B2R] on [b32_of_bits], [b64_of_bits]).
    Statements only; each closed by [exact] of a theorem of Encode/EncFlocq.v;
    [Print Assumptions] under each.

    Note on assumptions: [b32_of_bits] / [b64_of_bits] are [FF2B _ (binary_float_of_bits_aux_correct ..)];
    the validity proof embedded in them is proved in Flocq with the reals, so every
    statement that mentions [b32_of_bits] lists the standard-library real-number assumptions
    even though the proofs here never use them.  The [core_*] statements are the same
    facts on the computational core [binary_float_of_bits_aux] and are closed under the global context. *)
From Coq Require Import ZArith Bool Reals SpecFloat.
From Flocq Require Import IEEE754.Binary IEEE754.Bits.
From Unodb Require Import Base.Lex Base.FloatBits Encode.EncModel Encode.EncOrder Encode.EncFlocq.
Local Open Scope Z_scope.

Print Assumptions b32_of_bits.
Print Assumptions b64_of_bits.

(** (1) IEEE less-than implies the encoder's order. *)
Theorem C11b_ftotal_lt_Bcompare32 : forall x y,
  0 <= x < 2 ^ 32 -> 0 <= y < 2 ^ 32 ->
  f_is_nan f32 x = false -> f_is_nan f32 y = false ->
  Bcompare 24 128 (b32_of_bits x) (b32_of_bits y) = Some Lt -> ftotal_lt f32 x y.
Proof. exact ftotal_lt_Bcompare32. Qed.
Print Assumptions C11b_ftotal_lt_Bcompare32.

Theorem C11b_ftotal_lt_Bcompare64 : forall x y,
  0 <= x < 2 ^ 64 -> 0 <= y < 2 ^ 64 ->
  f_is_nan f64 x = false -> f_is_nan f64 y = false ->
  Bcompare 53 1024 (b64_of_bits x) (b64_of_bits y) = Some Lt -> ftotal_lt f64 x y.
Proof. exact ftotal_lt_Bcompare64. Qed.
Print Assumptions C11b_ftotal_lt_Bcompare64.

(** (2) Converse, up to -0 (word 2^31 / 2^63) before +0 (word 0). *)
Theorem C11b_Bcompare_ftotal_lt32 : forall x y,
  0 <= x < 2 ^ 32 -> 0 <= y < 2 ^ 32 ->
  f_is_nan f32 x = false -> f_is_nan f32 y = false ->
  ftotal_lt f32 x y ->
  Bcompare 24 128 (b32_of_bits x) (b32_of_bits y) = Some Lt \/ (x = 2 ^ 31 /\ y = 0).
Proof. exact Bcompare_ftotal_lt32. Qed.
Print Assumptions C11b_Bcompare_ftotal_lt32.

Theorem C11b_Bcompare_ftotal_lt64 : forall x y,
  0 <= x < 2 ^ 64 -> 0 <= y < 2 ^ 64 ->
  f_is_nan f64 x = false -> f_is_nan f64 y = false ->
  ftotal_lt f64 x y ->
  Bcompare 53 1024 (b64_of_bits x) (b64_of_bits y) = Some Lt \/ (x = 2 ^ 63 /\ y = 0).
Proof. exact Bcompare_ftotal_lt64. Qed.
Print Assumptions C11b_Bcompare_ftotal_lt64.

Theorem C11b_Bcompare_zeros32 : Bcompare 24 128 (b32_of_bits (2 ^ 31)) (b32_of_bits 0) = Some Eq.
Proof. exact Bcompare_zeros32. Qed.
Print Assumptions C11b_Bcompare_zeros32.

Theorem C11b_Bcompare_zeros64 : Bcompare 53 1024 (b64_of_bits (2 ^ 63)) (b64_of_bits 0) = Some Eq.
Proof. exact Bcompare_zeros64. Qed.
Print Assumptions C11b_Bcompare_zeros64.

(** (1)+(2) as one equation: IEEE comparison of non-NaN words is the
    sign-magnitude comparison of (sign bit, magnitude bits). *)
Theorem C11b_Bcompare_bits32 : forall x y,
  f_is_nan f32 x = false -> f_is_nan f32 y = false ->
  Bcompare 24 128 (b32_of_bits x) (b32_of_bits y)
  = Some (cmp_sm (fneg f32 x) (fmag f32 x) (fneg f32 y) (fmag f32 y)).
Proof. exact Bcompare_bits32. Qed.
Print Assumptions C11b_Bcompare_bits32.

Theorem C11b_Bcompare_bits64 : forall x y,
  f_is_nan f64 x = false -> f_is_nan f64 y = false ->
  Bcompare 53 1024 (b64_of_bits x) (b64_of_bits y)
  = Some (cmp_sm (fneg f64 x) (fmag f64 x) (fneg f64 y) (fmag f64 y)).
Proof. exact Bcompare_bits64. Qed.
Print Assumptions C11b_Bcompare_bits64.

(** Assumption-free core of (1)+(2): the decoder [binary_float_of_bits_aux] and
    [SFcompare] (which [Bcompare] unfolds to), and [ftotal_lt] against [cmp_sm]. *)
Theorem C11b_core_SFcompare32 : forall x y,
  f_is_nan f32 x = false -> f_is_nan f32 y = false ->
  SFcompare (FF2SF (binary_float_of_bits_aux 23 8 x)) (FF2SF (binary_float_of_bits_aux 23 8 y))
  = Some (cmp_sm (fneg f32 x) (fmag f32 x) (fneg f32 y) (fmag f32 y)).
Proof. exact SFcompare_bits32. Qed.
Print Assumptions C11b_core_SFcompare32.

Theorem C11b_core_SFcompare64 : forall x y,
  f_is_nan f64 x = false -> f_is_nan f64 y = false ->
  SFcompare (FF2SF (binary_float_of_bits_aux 52 11 x)) (FF2SF (binary_float_of_bits_aux 52 11 y))
  = Some (cmp_sm (fneg f64 x) (fmag f64 x) (fneg f64 y) (fmag f64 y)).
Proof. exact SFcompare_bits64. Qed.
Print Assumptions C11b_core_SFcompare64.

Theorem C11b_core_ftotal_lt_cmp32 : forall x y,
  f_is_nan f32 x = false -> f_is_nan f32 y = false ->
  (ftotal_lt f32 x y <->
   cmp_sm (fneg f32 x) (fmag f32 x) (fneg f32 y) (fmag f32 y) = Lt
   \/ ((fneg f32 x = true /\ fmag f32 x = 0) /\ (fneg f32 y = false /\ fmag f32 y = 0))).
Proof. exact ftotal_lt_cmp_sm32. Qed.
Print Assumptions C11b_core_ftotal_lt_cmp32.

Theorem C11b_core_ftotal_lt_cmp64 : forall x y,
  f_is_nan f64 x = false -> f_is_nan f64 y = false ->
  (ftotal_lt f64 x y <->
   cmp_sm (fneg f64 x) (fmag f64 x) (fneg f64 y) (fmag f64 y) = Lt
   \/ ((fneg f64 x = true /\ fmag f64 x = 0) /\ (fneg f64 y = false /\ fmag f64 y = 0))).
Proof. exact ftotal_lt_cmp_sm64. Qed.
Print Assumptions C11b_core_ftotal_lt_cmp64.

(** The bridge between the two levels: Flocq's [Bcompare] on decoded words is
    [SFcompare] on the computational core (by unfolding only). *)
Theorem C11b_Bcompare_is_SFcompare32 : forall x y,
  Bcompare 24 128 (b32_of_bits x) (b32_of_bits y)
  = SFcompare (FF2SF (binary_float_of_bits_aux 23 8 x)) (FF2SF (binary_float_of_bits_aux 23 8 y)).
Proof. exact (Bcompare_bof_SF 23 8 eq_refl eq_refl eq_refl). Qed.
Print Assumptions C11b_Bcompare_is_SFcompare32.

Theorem C11b_Bcompare_is_SFcompare64 : forall x y,
  Bcompare 53 1024 (b64_of_bits x) (b64_of_bits y)
  = SFcompare (FF2SF (binary_float_of_bits_aux 52 11 x)) (FF2SF (binary_float_of_bits_aux 52 11 y)).
Proof. exact (Bcompare_bof_SF 52 11 eq_refl eq_refl eq_refl). Qed.
Print Assumptions C11b_Bcompare_is_SFcompare64.

(** (3) NaN / infinity / finiteness. *)
Theorem C11b_nan32 : forall x,
  f_is_nan f32 x = true <-> is_nan 24 128 (b32_of_bits x) = true.
Proof. exact f_is_nan_is_nan32. Qed.
Print Assumptions C11b_nan32.

Theorem C11b_nan64 : forall x,
  f_is_nan f64 x = true <-> is_nan 53 1024 (b64_of_bits x) = true.
Proof. exact f_is_nan_is_nan64. Qed.
Print Assumptions C11b_nan64.

Theorem C11b_inf32 : forall x,
  f_is_inf f32 x = true <-> b32_of_bits x = B754_infinity 24 128 (fneg f32 x).
Proof. exact f_is_inf_infinity32. Qed.
Print Assumptions C11b_inf32.

Theorem C11b_inf64 : forall x,
  f_is_inf f64 x = true <-> b64_of_bits x = B754_infinity 53 1024 (fneg f64 x).
Proof. exact f_is_inf_infinity64. Qed.
Print Assumptions C11b_inf64.

Theorem C11b_finite32 : forall x,
  is_finite 24 128 (b32_of_bits x) = negb (f_is_nan f32 x) && negb (f_is_inf f32 x).
Proof. exact is_finite32_eq. Qed.
Print Assumptions C11b_finite32.

Theorem C11b_finite64 : forall x,
  is_finite 53 1024 (b64_of_bits x) = negb (f_is_nan f64 x) && negb (f_is_inf f64 x).
Proof. exact is_finite64_eq. Qed.
Print Assumptions C11b_finite64.

Theorem C11b_core_nan32 : forall x, is_nan_FF (binary_float_of_bits_aux 23 8 x) = f_is_nan f32 x.
Proof. exact is_nan_aux32. Qed.
Print Assumptions C11b_core_nan32.

Theorem C11b_core_nan64 : forall x, is_nan_FF (binary_float_of_bits_aux 52 11 x) = f_is_nan f64 x.
Proof. exact is_nan_aux64. Qed.
Print Assumptions C11b_core_nan64.

Theorem C11b_core_inf32 : forall x,
  f_is_inf f32 x = true <-> binary_float_of_bits_aux 23 8 x = F754_infinity (fneg f32 x).
Proof. exact is_inf_aux32. Qed.
Print Assumptions C11b_core_inf32.

Theorem C11b_core_inf64 : forall x,
  f_is_inf f64 x = true <-> binary_float_of_bits_aux 52 11 x = F754_infinity (fneg f64 x).
Proof. exact is_inf_aux64. Qed.
Print Assumptions C11b_core_inf64.

(** (4) With the encoder's order theorem. *)
Theorem C11b_enc_lt_of_Bcompare32 : forall x y,
  0 <= x < 2 ^ 32 -> 0 <= y < 2 ^ 32 ->
  f_is_nan f32 x = false -> f_is_nan f32 y = false ->
  Bcompare 24 128 (b32_of_bits x) (b32_of_bits y) = Some Lt ->
  lex_lt (enc_float f32 x) (enc_float f32 y).
Proof. exact enc_lt_of_Bcompare32. Qed.
Print Assumptions C11b_enc_lt_of_Bcompare32.

Theorem C11b_enc_lt_of_Bcompare64 : forall x y,
  0 <= x < 2 ^ 64 -> 0 <= y < 2 ^ 64 ->
  f_is_nan f64 x = false -> f_is_nan f64 y = false ->
  Bcompare 53 1024 (b64_of_bits x) (b64_of_bits y) = Some Lt ->
  lex_lt (enc_float f64 x) (enc_float f64 y).
Proof. exact enc_lt_of_Bcompare64. Qed.
Print Assumptions C11b_enc_lt_of_Bcompare64.

Theorem C11b_enc_lt_iff_Bcompare32 : forall x y,
  0 <= x < 2 ^ 32 -> 0 <= y < 2 ^ 32 ->
  f_is_nan f32 x = false -> f_is_nan f32 y = false ->
  (lex_lt (enc_float f32 x) (enc_float f32 y) <->
   Bcompare 24 128 (b32_of_bits x) (b32_of_bits y) = Some Lt \/ (x = 2 ^ 31 /\ y = 0)).
Proof. exact enc_lt_iff_Bcompare32. Qed.
Print Assumptions C11b_enc_lt_iff_Bcompare32.

Theorem C11b_enc_lt_iff_Bcompare64 : forall x y,
  0 <= x < 2 ^ 64 -> 0 <= y < 2 ^ 64 ->
  f_is_nan f64 x = false -> f_is_nan f64 y = false ->
  (lex_lt (enc_float f64 x) (enc_float f64 y) <->
   Bcompare 53 1024 (b64_of_bits x) (b64_of_bits y) = Some Lt \/ (x = 2 ^ 63 /\ y = 0)).
Proof. exact enc_lt_iff_Bcompare64. Qed.
Print Assumptions C11b_enc_lt_iff_Bcompare64.

(** (4') Finite values: the order of the real numbers denoted ([B2R]). *)
Theorem C11b_enc_lt_of_Rlt32 : forall x y,
  0 <= x < 2 ^ 32 -> 0 <= y < 2 ^ 32 ->
  is_finite 24 128 (b32_of_bits x) = true -> is_finite 24 128 (b32_of_bits y) = true ->
  (B2R 24 128 (b32_of_bits x) < B2R 24 128 (b32_of_bits y))%R ->
  lex_lt (enc_float f32 x) (enc_float f32 y).
Proof. exact enc_lt_of_Rlt32. Qed.
Print Assumptions C11b_enc_lt_of_Rlt32.

Theorem C11b_enc_lt_of_Rlt64 : forall x y,
  0 <= x < 2 ^ 64 -> 0 <= y < 2 ^ 64 ->
  is_finite 53 1024 (b64_of_bits x) = true -> is_finite 53 1024 (b64_of_bits y) = true ->
  (B2R 53 1024 (b64_of_bits x) < B2R 53 1024 (b64_of_bits y))%R ->
  lex_lt (enc_float f64 x) (enc_float f64 y).
Proof. exact enc_lt_of_Rlt64. Qed.
Print Assumptions C11b_enc_lt_of_Rlt64.

Theorem C11b_enc_lt_iff_Rlt32 : forall x y,
  0 <= x < 2 ^ 32 -> 0 <= y < 2 ^ 32 ->
  is_finite 24 128 (b32_of_bits x) = true -> is_finite 24 128 (b32_of_bits y) = true ->
  (lex_lt (enc_float f32 x) (enc_float f32 y) <->
   (B2R 24 128 (b32_of_bits x) < B2R 24 128 (b32_of_bits y))%R \/ (x = 2 ^ 31 /\ y = 0)).
Proof. exact enc_lt_iff_Rlt32. Qed.
Print Assumptions C11b_enc_lt_iff_Rlt32.

Theorem C11b_enc_lt_iff_Rlt64 : forall x y,
  0 <= x < 2 ^ 64 -> 0 <= y < 2 ^ 64 ->
  is_finite 53 1024 (b64_of_bits x) = true -> is_finite 53 1024 (b64_of_bits y) = true ->
  (lex_lt (enc_float f64 x) (enc_float f64 y) <->
   (B2R 53 1024 (b64_of_bits x) < B2R 53 1024 (b64_of_bits y))%R \/ (x = 2 ^ 63 /\ y = 0)).
Proof. exact enc_lt_iff_Rlt64. Qed.
Print Assumptions C11b_enc_lt_iff_Rlt64.

Theorem C11b_zero_words_B2R32 :
  B2R 24 128 (b32_of_bits (2 ^ 31)) = 0%R /\ B2R 24 128 (b32_of_bits 0) = 0%R.
Proof. exact zero_words_B2R32. Qed.
Print Assumptions C11b_zero_words_B2R32.

Theorem C11b_zero_words_B2R64 :
  B2R 53 1024 (b64_of_bits (2 ^ 63)) = 0%R /\ B2R 53 1024 (b64_of_bits 0) = 0%R.
Proof. exact zero_words_B2R64. Qed.
Print Assumptions C11b_zero_words_B2R64.
