(** C09 — concurrent scans stay ordered, bounded and complete for stable keys
    (the abstract theorem; see Olc/ScanSpec.v for the query model). *)
From Coq Require Import List ZArith Bool Sorted Lia.
From Unodb Require Import Olc.ScanSpec Olc.ScanProofs.
Import ListNotations.
Local Open Scope Z_scope.

(** delivered keys are strictly increasing and all >= the bound *)
Theorem C09_ordered_bounded : forall H t lo ds, scan_fwd H t lo ds ->
  StronglySorted Z.lt (keys_of ds) /\ Forall (fun k => lo <= k) (keys_of ds).
Proof. exact scan_ordered_bounded. Qed.
Print Assumptions C09_ordered_bounded.

(** each delivered key carries a value it held at some moment during the scan *)
Theorem C09_values_held : forall H t lo ds, scan_fwd H t lo ds ->
  Forall (fun d => (t <= fst (fst d))%nat /\ H (fst (fst d)) (snd (fst d)) = Some (snd d)) ds.
Proof. exact scan_values_held. Qed.
Print Assumptions C09_values_held.

(** a key that is absent at every moment is never delivered *)
Theorem C09_no_phantom : forall H t lo ds k, scan_fwd H t lo ds ->
  (forall t', H t' k = None) -> ~ In k (keys_of ds).
Proof. exact scan_no_phantom. Qed.
Print Assumptions C09_no_phantom.

(** completeness for stable keys: a key >= the bound that is present at every
    moment from the start of the scan to its last query, and not beyond the
    last delivered key, is delivered (exactly once, by strict order) *)
Theorem C09_complete_prefix : forall H t lo ds k,
  scan_fwd H t lo ds -> lo <= k -> k < final_bound lo ds ->
  (forall t', (t <= t' <= last_moment t ds)%nat -> H t' k <> None) -> In k (keys_of ds).
Proof. exact scan_complete_prefix. Qed.
Print Assumptions C09_complete_prefix.

(** ... and when the scan ran to completion every stable key of the interval is delivered *)
Theorem C09_complete : forall H t lo ds te k,
  scan_fwd H t lo ds -> (last_moment t ds <= te)%nat -> exhausted H te (final_bound lo ds) ->
  lo <= k -> (forall t', (t <= t' <= te)%nat -> H t' k <> None) -> In k (keys_of ds).
Proof. exact scan_complete. Qed.
Print Assumptions C09_complete.

Example C09_nonvacuous :
  exists H, scan_fwd H 0 5 [(1%nat, 7, 70); (3%nat, 9, 91)] /\ exhausted H 4 10.
Proof.
  exists (fun t k => if (k =? 7) then (if (t <=? 2)%nat then Some 70 else None)
                     else if (k =? 9) then Some (if (t <=? 2)%nat then 90 else 91)
                     else if (k =? 8) then (if (t <=? 0)%nat then Some 80 else None) else None).
  split.
  - apply sf_cons with (t1 := 1%nat); [lia| |reflexivity|].
    + unfold least_ge. cbn. split; [lia|]. split; [discriminate|]. intros k' A B.
      destruct (k' =? 7) eqn:E7; [lia|]. destruct (k' =? 9) eqn:E9; [lia|]. destruct (k' =? 8) eqn:E8; [lia|reflexivity].
    + apply sf_cons with (t1 := 3%nat); [lia| |reflexivity|apply sf_nil].
      unfold least_ge. cbn. split; [lia|]. split; [discriminate|]. intros k' A B.
      destruct (k' =? 7) eqn:E7; [reflexivity|]. destruct (k' =? 9) eqn:E9; [lia|]. destruct (k' =? 8) eqn:E8; reflexivity.
  - unfold exhausted. intros k Hk. cbn.
    destruct (k =? 7) eqn:E7; [reflexivity|]. destruct (k =? 9) eqn:E9; [lia|]. destruct (k =? 8) eqn:E8; reflexivity.
Qed.
