(** C01g — point operations behave as an ordered map, for byte-string keys of
    arbitrary, mixed lengths, under the library's contract (the key set is
    prefix-free) and the executable capacity guard of known finding K1.
    Statements only; each closed by [exact]; [Print Assumptions] beneath. *)
From Coq Require Import List ZArith Bool Lia.
From Unodb Require Import Base.Lex Art.ArtModel Art.ArtIter Art.ArtSpec Art.ArtInv Art.ArtProofs
  Art.ArtGenInv Art.ArtGenRun Art.ArtGenInst Art.ArtGenShort.
Import ListNotations.
Local Open Scope Z_scope.

(** [hist_ok sz d s ops] (ArtGenInv.v) is the conjunction, over every step of
    the history, of
      [op_pf s o]   : the operation's key consists of bytes and is prefix-free
                      together with the keys stored in the specification state;
      [op_fits d o] : the step does not need more than the 7 prefix bytes an
                      inner node holds (leaf split: the dispatch bytes differ;
                      collapse: parent prefix + 1 + child prefix <= 7).
    Every such history of get/insert/remove/empty/clear returns exactly what
    the map specification returns (in particular never [RErr]). *)
Theorem C01g_refines_map : forall sz ops, hist_ok sz db0 ([], 0) ops = true ->
  run sz db0 ops = spec_run ([], 0) ops.
Proof. exact run_refines_spec_g. Qed.
Print Assumptions C01g_refines_map.

(** The reached state satisfies the generalised invariant, its keys are
    distinct and pairwise prefix-free, it holds exactly the specification's
    entries (with leaf identities), and a lookup of any key that is
    prefix-free w.r.t. the stored keys agrees with the association list. *)
Theorem C01g_invariant : forall sz ops, hist_ok sz db0 ([], 0) ops = true ->
  let d := run_state sz db0 ops in
  db_WFg d /\ keys_nodup (db_leaves d) /\
  (forall e1 e2, In e1 (db_leaves d) -> In e2 (db_leaves d) -> pf2 (fst e1) (fst e2)) /\
  (forall k, assoc k (fst (spec_state ([], 0) ops)) = assoc k (db_leaves d)) /\
  (forall k, pfk k (db_leaves d) -> db_get d k = Ok (assoc k (db_leaves d))).
Proof. exact run_state_invariant_g. Qed.
Print Assumptions C01g_invariant.

(** part of the invariant, derived: path + prefix of every inner node is a
    proper prefix of (strictly shorter than) every key stored below it *)
Theorem C01g_inner_shorter : forall c p ch pi e,
  WFg (Inode c p ch) pi -> In e (leaves (Inode c p ch)) ->
  firstn (length (pi ++ p)) (fst e) = pi ++ p /\ (length pi + length p < length (fst e))%nat.
Proof. exact WFg_inner_shorter. Qed.
Print Assumptions C01g_inner_shorter.

(** The fixed-length domain of C01 satisfies both hypotheses automatically:
    the guard is not over-strong, and C01_refines_map is an instance. *)
Theorem C01g_fixed_length_instance : forall L sz ops, (1 <= L <= 8)%nat -> Forall (op_ok L) ops ->
  hist_ok sz db0 ([], 0) ops = true.
Proof. exact fixed_length_hist_ok. Qed.
Print Assumptions C01g_fixed_length_instance.

Theorem C01g_recovers_C01 : forall L sz ops, (1 <= L <= 8)%nat -> Forall (op_ok L) ops ->
  run sz db0 ops = spec_run ([], 0) ops.
Proof. exact fixed_length_corollary. Qed.
Print Assumptions C01g_recovers_C01.

Theorem C01g_WF_instance : forall L d, db_WF L d -> db_WFg d.
Proof. exact db_WF_WFg. Qed.
Print Assumptions C01g_WF_instance.

(** A purely specification-level sufficient condition: if every key of the
    history has at most 8 bytes (mixed lengths allowed), prefix-freedom alone
    ([hist_pf], computed on the specification run only) implies the capacity
    guard at every step, hence the refinement. *)
Theorem C01g_short_keys_instance : forall sz ops, Forall op_short ops -> hist_pf ([], 0) ops = true ->
  hist_ok sz db0 ([], 0) ops = true.
Proof. exact short_keys_hist_ok. Qed.
Print Assumptions C01g_short_keys_instance.

Theorem C01g_short_keys_refine : forall sz ops, Forall op_short ops -> hist_pf ([], 0) ops = true ->
  run sz db0 ops = spec_run ([], 0) ops.
Proof. exact short_keys_refine. Qed.
Print Assumptions C01g_short_keys_refine.

(** * a mixed-length history inside the domain *)

Definition ex_sz : sizes := {| sz_leaf := 11; sz4 := 48; sz16 := 160; sz48 := 672; sz256 := 2064 |}.

Definition ex_mixed : list op :=
  [OInsert [1;2;3] [10]; OInsert [1;2;4;5] [11] (* leaf split, prefix [1;2] *);
   OGet [1;2;3]; OInsert [1;9] [12] (* prefix split *); OInsert [2] [13];
   OGet [1;2;4;5]; OGet [1;9]; OGet [2]; OGet [3;3];
   ORemove [1;9] (* collapse into a child inode: prefix [] ++ 2 ++ [] *);
   OGet [1;2;3]; ORemove [2] (* collapse: prefix [] ++ 1 ++ [2] *); ORemove [7];
   OGet [1;2;4;5]; OInsert [1;2;3] [9]; ORemove [1;2;3] (* collapse onto a leaf *);
   OEmpty; ORemove [1;2;4;5]; OEmpty; OInsert [0;0;0;0;0;0;0;0;0] [1]; OInsert [0;0;0;0;0;0;0;1] [2];
   OGet [0;0;0;0;0;0;0;1]; OClear; OEmpty].

Example C01g_mixed_ok : hist_ok ex_sz db0 ([], 0) ex_mixed = true.
Proof. vm_compute. reflexivity. Qed.

(** the structural events really happen *)
Example C01g_mixed_shapes :
  root (run_state ex_sz db0 (firstn 2 ex_mixed)) =
    Some (Inode C4 [1;2] [(3, Leaf 0 [1;2;3] [10]); (4, Leaf 1 [1;2;4;5] [11])]) /\
  root (run_state ex_sz db0 (firstn 5 ex_mixed)) =
    Some (Inode C4 [] [(1, Inode C4 [] [(2, Inode C4 [] [(3, Leaf 0 [1;2;3] [10]); (4, Leaf 1 [1;2;4;5] [11])]);
                                          (9, Leaf 2 [1;9] [12])]);
                       (2, Leaf 3 [2] [13])]) /\
  root (run_state ex_sz db0 (firstn 10 ex_mixed)) =
    Some (Inode C4 [] [(1, Inode C4 [2] [(3, Leaf 0 [1;2;3] [10]); (4, Leaf 1 [1;2;4;5] [11])]);
                       (2, Leaf 3 [2] [13])]) /\
  root (run_state ex_sz db0 (firstn 12 ex_mixed)) =
    Some (Inode C4 [1;2] [(3, Leaf 0 [1;2;3] [10]); (4, Leaf 1 [1;2;4;5] [11])]) /\
  root (run_state ex_sz db0 (firstn 16 ex_mixed)) = Some (Leaf 1 [1;2;4;5] [11]) /\
  root (run_state ex_sz db0 (firstn 21 ex_mixed)) =
    Some (Inode C4 [0;0;0;0;0;0;0] [(0, Leaf 4 [0;0;0;0;0;0;0;0;0] [1]); (1, Leaf 5 [0;0;0;0;0;0;0;1] [2])]).
Proof. vm_compute. repeat split. Qed.

Example C01g_mixed_outputs :
  run ex_sz db0 ex_mixed =
  [RBool true; RBool true; RGet (Some (0, [10])); RBool true; RBool true;
   RGet (Some (1, [11])); RGet (Some (2, [12])); RGet (Some (3, [13])); RGet None;
   RBool true; RGet (Some (0, [10])); RBool true; RBool false; RGet (Some (1, [11]));
   RBool false; RBool true; RBool false; RBool true; RBool true; RBool true; RBool true;
   RGet (Some (5, [2])); RUnit; RBool true].
Proof. vm_compute. reflexivity. Qed.

Example C01g_short_nonvacuous :
  Forall op_short (firstn 19 ex_mixed) /\ hist_pf ([], 0) (firstn 19 ex_mixed) = true.
Proof.
  split; [|vm_compute; reflexivity]. unfold ex_mixed. cbn [firstn].
  repeat (constructor; [unfold op_short, short_key, prefix_capacity; cbn; lia|]). constructor.
Qed.

(** * both hypotheses are needed *)

(** K1, leaf split: two prefix-free keys sharing 9 bytes.  Prefix-freedom
    holds at every step, the capacity guard fails, the model loses a key. *)
Definition ex_k1 : list op :=
  [OInsert [97;97;97;97;97;97;97;97;97;88] [1];
   OInsert [97;97;97;97;97;97;97;97;97;89] [2];
   OGet [97;97;97;97;97;97;97;97;97;88]].

Theorem C01g_guard_needed :
  hist_pf ([], 0) ex_k1 = true /\ hist_ok ex_sz db0 ([], 0) ex_k1 = false /\
  op_fits (run_state ex_sz db0 (firstn 1 ex_k1)) (nth 1 ex_k1 OEmpty) = false /\
  run ex_sz db0 ex_k1 <> spec_run ([], 0) ex_k1.
Proof. vm_compute. repeat split; discriminate. Qed.
Print Assumptions C01g_guard_needed.

(** K1, collapse: every split fits (prefixes [1;2] and [4;5;6;7;8;9]), the
    removal of [1;2;9] needs the prefix [1;2] ++ 3 ++ [4;5;6;7;8;9].  The
    model's prefix is an unbounded byte list (the C++ key_prefix::prepend
    asserts length() + prefix1.length() < key_prefix_capacity), so what breaks
    in the model is the invariant: the state is not representable any more. *)
Theorem C01g_guard_needed_collapse : exists sz ops,
  hist_pf ([], 0) ops = true /\ hist_ok sz db0 ([], 0) (removelast ops) = true /\
  op_fits (run_state sz db0 (removelast ops)) (last ops OEmpty) = false /\
  ~ db_WFg (run_state sz db0 ops).
Proof. exact collapse_overflow_refuted. Qed.
Print Assumptions C01g_guard_needed_collapse.

(** outside the contract (a looked-up key that is a proper prefix of a stored
    key) the capacity guard alone does not help: out-of-bounds key access *)
Definition ex_not_pf : list op := [OInsert [1;0;3] [1]; OInsert [1;0;4] [2]; OGet [1]].

Theorem C01g_prefix_free_needed :
  hist_pf ([], 0) ex_not_pf = false /\
  op_fits (run_state ex_sz db0 (firstn 2 ex_not_pf)) (nth 2 ex_not_pf OEmpty) = true /\
  run ex_sz db0 ex_not_pf <> spec_run ([], 0) ex_not_pf.
Proof. vm_compute. repeat split; discriminate. Qed.
Print Assumptions C01g_prefix_free_needed.
