(** C14 — no wait cycle among the threads of the OLC index (trace level).
    Statements only; each closed by [exact]; [Print Assumptions] beneath. *)
From Coq Require Import List ZArith Bool.
From Unodb Require Import Lock.LockModel Lock.LockProofs Olc.OlcTrace Olc.OlcProofs Olc.Deadlock.
Import ListNotations.
Local Open Scope Z_scope.

(** In every accepted trace, a thread that holds a write guard at the end of
    the trace is not in a waiting step (its last event is not the spin body
    of try_read_lock on any node). *)
Theorem C14c_holder_not_waiting : forall inits tr b u,
  olc_trace_ok inits tr = true -> In (b, u) (held_after [] tr) -> forall b', ~ spinning_on tr u b'.
Proof. exact holder_not_spinning. Qed.
Print Assumptions C14c_holder_not_waiting.

(** Every node whose lock word is write-locked at the end of an accepted
    trace has exactly one holder; that thread holds it in the global ghost as
    well and is not waiting: a spinning reader always waits for a thread that
    can run. *)
Theorem C14c_locked_node_has_running_holder : forall inits tr b s0 s,
  olc_trace_ok inits tr = true -> inits_ok inits -> In (b, s0) inits ->
  lrun s0 (project b tr) = Some s -> w_is_write_locked (lw s) = true ->
  exists u, guards s = [u] /\ In (b, u) (held_after [] tr) /\ forall b', ~ spinning_on tr u b'.
Proof. exact locked_node_has_running_holder. Qed.
Print Assumptions C14c_locked_node_has_running_holder.

(** No deadlock: there is no accepted trace after which every unfinished
    thread (the set ts, which contains every lock holder) is spinning on a
    node that is still write-locked.  This is the state the deterministic
    scheduler reports as a deadlock on the implementation. *)
Theorem C14c_not_all_waiting : forall inits tr (ts : list tid),
  olc_trace_ok inits tr = true -> inits_ok inits ->
  (forall t, In t ts -> exists b s0 s, In (b, s0) inits /\ spinning_on tr t b /\
       lrun s0 (project b tr) = Some s /\ w_is_write_locked (lw s) = true) ->
  (forall b u, In (b, u) (held_after [] tr) -> In u ts) ->
  ts = [].
Proof. exact not_all_waiting. Qed.
Print Assumptions C14c_not_all_waiting.

(** non-vacuity: thread 1 holds node 1 while thread 2 spins on it; the trace
    is accepted, node 1 is write-locked, thread 2 is spinning, thread 1 is not *)
Example C14c_nonvacuous :
  let inits := [(1%nat, linit 1); (2%nat, linit 1)] in
  let tr := [(1%nat, ERLock 1%nat 0); (1%nat, EUpgrade 1%nat 0 true); (1%nat, ERLock 2%nat 2); (1%nat, ESpin 2%nat);
             (2%nat, ERLock 1%nat 0)] in
  olc_trace_ok inits tr = true /\ spinning_on tr 2%nat 1%nat /\
  (exists s, lrun (linit 1) (project 1%nat tr) = Some s /\ w_is_write_locked (lw s) = true) /\
  held_after [] tr = [(1%nat, 1%nat)] /\ last_of 1%nat tr = Some (2%nat, ERLock 1%nat 0).
Proof. vm_compute. repeat split; eauto. Qed.

Example C14c_inits_ok : inits_ok [(1%nat, linit 1); (2%nat, linit 1)].
Proof. intros b s0 [E|[E|[]]]; injection E as _ <-; (split; [apply linit_inv|reflexivity]). Qed.
