(** C09d -- the REVERSE direction of the OLC iterator (try_prior, try_last,
    try_seek with fwd = false, prior() with its re-seek fallback, the reverse
    branches of scan / scan_from / scan_range), and, for both directions, a
    root pointer that points to a leaf or is null.

    One reverse step is an interval PREDECESSOR query on the tree, a reverse
    iterator run is a chain of such queries: keys strictly decreasing, inside
    the interval, each with a value held during its step, no phantoms,
    complete for keys that are stable during the scan.  As in the forward
    direction (C09c) the atomic reading of a step is false
    ([C09d_step_not_atomic]); it holds for the steps that end the scan and for
    a seek that lands on its leaf directly - in particular whenever the seek
    reports [match] ([C09d_seek_match_atomic]).

    Root leaf: every step on a one-entry tree is atomic at the moment the
    leaf was read-locked under the root pointer's section; the end that
    try_next / try_prior report after re-validating the leaf later is the
    answer of the tree of THAT earlier moment, not of the moment of the
    re-validation ([C09d_root_leaf_end_not_at_revalidation]). *)
From Coq Require Import List ZArith Bool Arith Sorted Lia.
From Unodb Require Import Base.Lex Lock.LockModel Olc.ReadModel Olc.IterModel Olc.IterProofs Olc.IterSeek
  Olc.IterScan Olc.IterExample Olc.IterRevModel Olc.IterRevProofs Olc.IterRevSeek Olc.IterRevScan
  Olc.IterRevExample Olc.IterRevCounter Olc.IterLeafModel Olc.IterLeaf Olc.IterLeafExample.
Import ListNotations.
Local Open Scope Z_scope.

(** ** Reverse steps *)

(** a successful try_prior from key k that delivers (k', v'): within
    [t0, lock moment of the new leaf], (k', v') is in the tree at some moment,
    k' < k, every key strictly between is absent at some moment; the new
    position satisfies the stack invariant again *)
Theorem C09d_prior_step : forall H pos t0 pops pv tc b' c' rest hs a q k' v',
  disciplined H -> stays_reachable H -> fullpath_stable H -> wf_history H -> pos_ok H pos ->
  prior_some H pos t0 pops pv tc b' c' rest hs a q k' v' ->
  (t0 <= h_lock a)%nat /\ rquery H t0 (h_lock a) (UKey true (ip_key pos)) (Some (k', v')) /\
  pos_ok H (prior_pos pv b' c' rest hs a k' v').
Proof. exact prior_pred_some. Qed.
Print Assumptions C09d_prior_step.

(** a successful try_prior that empties the stack: atomic at t0 *)
Theorem C09d_prior_end : forall H pos t0 pops,
  disciplined H -> stays_reachable H -> fullpath_stable H -> wf_history H -> pos_ok H pos ->
  prior_none H pos t0 pops -> pred_query (H t0) (ip_key pos) None.
Proof. exact prior_pred_none. Qed.
Print Assumptions C09d_prior_end.

(** a successful reverse seek (all endings of try_seek with fwd = false,
    the root pointer may point to a leaf) *)
Theorem C09d_seek : forall H, disciplined H -> stays_reachable H -> fullpath_stable H -> wf_history H ->
  forall hi rl t1 t2 pos, rseek_result H hi rl t1 t2 pos ->
  (rl <= t1 <= t2)%nat /\ t2 = ip_at pos /\ gpos_ok H pos /\
  rquery H t1 t2 (UKey false hi) (Some (ip_key pos, ip_val pos)).
Proof. exact rseek_result_ok. Qed.
Print Assumptions C09d_seek.

Theorem C09d_seek_end : forall H, disciplined H -> stays_reachable H -> fullpath_stable H -> wf_history H ->
  forall hi rl T, rseek_end H hi rl T -> (rl <= T)%nat /\ last_query (H T) (UKey false hi) None.
Proof. exact rseek_end_ok. Qed.
Print Assumptions C09d_seek_end.

(** the seek that lands on a leaf <= hi is an atomic query *)
Theorem C09d_seek_hit_atomic : forall H hi rl rw rc n0 hs a q k' v',
  disciplined H -> stays_reachable H -> fullpath_stable H -> wf_history H ->
  seek_down H hi rl rw rc n0 hs a q -> h_cont a = CLeaf k' v' -> lex_le k' hi ->
  (rl <= h_lock a)%nat /\ last_query (H (h_lock a)) (UKey false hi) (Some (k', v')).
Proof. exact rseek_hit_query. Qed.
Print Assumptions C09d_seek_hit_atomic.

(** when the key found is the search key ([match]), the seek was a direct hit *)
Theorem C09d_seek_match_atomic : forall H, disciplined H -> stays_reachable H -> fullpath_stable H -> wf_history H ->
  forall hi rl t1 t2 pos, rseek_result H hi rl t1 t2 pos -> ip_key pos = hi ->
  t1 = t2 /\ last_query (H t1) (UKey false hi) (Some (ip_key pos, ip_val pos)).
Proof. exact rseek_match_atomic. Qed.
Print Assumptions C09d_seek_match_atomic.

(** try_last *)
Theorem C09d_last : forall H rl rw rc n0 hs a q k v,
  disciplined H -> stays_reachable H -> fullpath_stable H -> wf_history H ->
  last_down H rl rw rc n0 hs a q k v ->
  (rl <= h_lock a)%nat /\ rquery H rl (h_lock a) UInf (Some (k, v)) /\ gpos_ok H (seek_pos hs a k v).
Proof. exact last_down_query. Qed.
Print Assumptions C09d_last.

(** a reverse iterator run / scan is a chain of interval predecessor queries *)
Theorem C09d_run_is_chain : forall H, disciplined H -> stays_reachable H -> fullpath_stable H -> wf_history H ->
  forall t pos ds e, riter_run H t pos ds e -> gpos_ok H pos -> (t <= ip_at pos)%nat ->
  rscan H t (UKey true (ip_key pos)) ds /\ rrun_end H t (UKey true (ip_key pos)) ds e.
Proof. exact riter_run_rscan. Qed.
Print Assumptions C09d_run_is_chain.

Theorem C09d_scan_is_chain : forall H, disciplined H -> stays_reachable H -> fullpath_stable H -> wf_history H ->
  forall t u ds e, riter_scan H t u ds e -> rscan H t u ds /\ rrun_end H t u ds e.
Proof. exact riter_scan_rscan. Qed.
Print Assumptions C09d_scan_is_chain.

(** ** The scan theorems for chains of interval predecessor queries *)

Theorem C09d_ordered_bounded : forall H t u ds, rscan H t u ds ->
  StronglySorted (fun a b => lex_lt b a) (wkeys ds) /\ Forall (below u) (wkeys ds).
Proof. exact rscan_ordered_bounded. Qed.
Print Assumptions C09d_ordered_bounded.

Theorem C09d_values_held : forall H t u ds, rscan H t u ds ->
  Forall (fun d : delivery => let '(t1, t2, k, v) := d in
            (t <= t1)%nat /\ exists T, (t1 <= T <= t2)%nat /\ entry (H T) k v) ds.
Proof. exact rscan_values_held. Qed.
Print Assumptions C09d_values_held.

Theorem C09d_no_phantom : forall H t u ds k, rscan H t u ds ->
  (forall t', ~ has_key (H t') k) -> ~ In k (wkeys ds).
Proof. exact rscan_no_phantom. Qed.
Print Assumptions C09d_no_phantom.

Theorem C09d_complete_prefix : forall H t u ds k, rscan H t u ds ->
  below u k -> ~ below (rfinal_bound u ds) k ->
  (forall t', (t <= t' <= wlast_moment t ds)%nat -> has_key (H t') k) -> In k (wkeys ds).
Proof. exact rscan_complete_prefix. Qed.
Print Assumptions C09d_complete_prefix.

Theorem C09d_complete : forall H t u ds te1 te2 k, rscan H t u ds ->
  (wlast_moment t ds <= te1 <= te2)%nat -> rexhausted H te1 te2 (rfinal_bound u ds) ->
  below u k -> (forall t', (t <= t' <= te2)%nat -> has_key (H t') k) -> In k (wkeys ds).
Proof. exact rscan_complete. Qed.
Print Assumptions C09d_complete.

(** the loop of the reverse scan_range stops at the first key <= to *)
Theorem C09d_range_complete : forall H t u ds stop to k, rscan H t u (ds ++ [stop]) ->
  range_stop to ds stop -> below u k -> lex_lt to k ->
  (forall t', (t <= t' <= wlast_moment t (ds ++ [stop]))%nat -> has_key (H t') k) -> In k (wkeys ds).
Proof. exact rscan_range_complete. Qed.
Print Assumptions C09d_range_complete.

(** ** End to end: a reverse iterator scan of the tree *)

(** scan(fn, false): u = UInf; scan_from(hi, fn, false): u = UKey false hi *)
Theorem C09d_iterator_scan : forall H, disciplined H -> stays_reachable H -> fullpath_stable H -> wf_history H ->
  forall t u ds e, riter_scan H t u ds e ->
  StronglySorted (fun a b => lex_lt b a) (wkeys ds) /\ Forall (below u) (wkeys ds) /\
  Forall (fun d : delivery => let '(t1, t2, k, v) := d in
            (t <= t1)%nat /\ exists T, (t1 <= T <= t2)%nat /\ entry (H T) k v) ds /\
  (forall k, (forall t', ~ has_key (H t') k) -> ~ In k (wkeys ds)) /\
  (forall k, below u k -> ~ below (rfinal_bound u ds) k ->
     (forall t', (t <= t' <= wlast_moment t ds)%nat -> has_key (H t') k) -> In k (wkeys ds)) /\
  (forall te k, e = Some te -> below u k ->
     (forall t', (t <= t' <= te)%nat -> has_key (H t') k) -> In k (wkeys ds)).
Proof. exact riter_scan_c09. Qed.
Print Assumptions C09d_iterator_scan.

(** scan_range(from, to, fn) with to < from: the interval (to, from] *)
Theorem C09d_iterator_scan_range : forall H, disciplined H -> stays_reachable H -> fullpath_stable H -> wf_history H ->
  forall t from to ds stop e, riter_scan H t (UKey false from) (ds ++ [stop]) e -> range_stop to ds stop ->
  Forall (fun k => lex_lt to k /\ lex_le k from) (wkeys ds) /\
  forall k, lex_le k from -> lex_lt to k ->
    (forall t', (t <= t' <= wlast_moment t (ds ++ [stop]))%nat -> has_key (H t') k) -> In k (wkeys ds).
Proof. exact riter_scan_range. Qed.
Print Assumptions C09d_iterator_scan_range.

(** ** The root pointer points to a leaf, or is null *)

(** a position on a root leaf: the tree is that one entry at the moment the leaf was read-locked *)
Theorem C09d_root_leaf_only : forall H pos x, wf_history H -> leafpos_ok H pos ->
  has_key (H (ip_at pos)) x -> x = ip_key pos.
Proof. exact leafpos_only. Qed.
Print Assumptions C09d_root_leaf_only.

Theorem C09d_root_leaf_first : forall H rl rw rc n0 a q k v,
  disciplined H -> stays_reachable H -> fullpath_stable H -> wf_history H ->
  first_down H rl rw rc n0 [] a q k v ->
  (rl <= h_lock a)%nat /\ leafpos_ok H (seek_pos [] a k v) /\
  first_query (H (h_lock a)) false [] (Some (k, v)).
Proof. exact first_leaf_atomic. Qed.
Print Assumptions C09d_root_leaf_first.

Theorem C09d_root_leaf_last : forall H rl rw rc n0 a q k v,
  disciplined H -> stays_reachable H -> fullpath_stable H -> wf_history H ->
  last_down H rl rw rc n0 [] a q k v ->
  (rl <= h_lock a)%nat /\ leafpos_ok H (seek_pos [] a k v) /\
  last_query (H (h_lock a)) UInf (Some (k, v)).
Proof. exact last_leaf_atomic. Qed.
Print Assumptions C09d_root_leaf_last.

(** try_seek whose search phase ends on the root leaf: the four outcomes
    (fwd hit / fwd miss then end / rev hit / rev miss then end), all atomic *)
Theorem C09d_root_leaf_seek : forall H x rl rw rc n0 a q k v,
  disciplined H -> stays_reachable H -> fullpath_stable H -> wf_history H ->
  seek_down H x rl rw rc n0 [] a q -> h_cont a = CLeaf k v ->
  (rl <= h_lock a)%nat /\ leafpos_ok H (seek_pos [] a k v) /\
  (lex_le x k -> first_query (H (h_lock a)) false x (Some (k, v))) /\
  (lex_lt k x -> first_query (H (h_lock a)) false x None) /\
  (lex_le k x -> last_query (H (h_lock a)) (UKey false x) (Some (k, v))) /\
  (lex_lt x k -> last_query (H (h_lock a)) (UKey false x) None).
Proof. exact seek_leaf_query. Qed.
Print Assumptions C09d_root_leaf_seek.

(** try_next / try_prior from a root leaf cannot deliver, only end *)
Theorem C09d_root_leaf_no_next : forall H pos t0 pops pv tc b' c' rest hs a q k' v', leafpos_ok H pos ->
  ~ next_some H pos t0 pops pv tc b' c' rest hs a q k' v'.
Proof. exact leafpos_no_next. Qed.
Print Assumptions C09d_root_leaf_no_next.

Theorem C09d_root_leaf_no_prior : forall H pos t0 pops pv tc b' c' rest hs a q k' v', leafpos_ok H pos ->
  ~ prior_some H pos t0 pops pv tc b' c' rest hs a q k' v'.
Proof. exact leafpos_no_prior. Qed.
Print Assumptions C09d_root_leaf_no_prior.

(** the end reported by try_next / try_prior, from an inner stack (decided at
    t0) or from a root leaf (decided at the moment the leaf was read-locked) *)
Theorem C09d_root_leaf_next_end : forall H pos t t0 pops,
  disciplined H -> stays_reachable H -> fullpath_stable H -> wf_history H -> gpos_ok H pos ->
  (t <= ip_at pos)%nat -> (t <= t0)%nat -> next_none H pos t0 pops ->
  (t <= end_moment pos t0)%nat /\ succ_query (H (end_moment pos t0)) (ip_key pos) None.
Proof. exact gnext_none_end. Qed.
Print Assumptions C09d_root_leaf_next_end.

Theorem C09d_root_leaf_prior_end : forall H pos t t0 pops,
  disciplined H -> stays_reachable H -> fullpath_stable H -> wf_history H -> gpos_ok H pos ->
  (t <= ip_at pos)%nat -> (t <= t0)%nat -> prior_none H pos t0 pops ->
  (t <= end_moment pos t0)%nat /\ pred_query (H (end_moment pos t0)) (ip_key pos) None.
Proof. exact gprior_none_end. Qed.
Print Assumptions C09d_root_leaf_prior_end.

(** the empty tree *)
Theorem C09d_empty_tree_fwd : forall (H : history) rl s lo, root (H rl) = None -> first_query (H rl) s lo None.
Proof. exact seek_empty_query. Qed.
Print Assumptions C09d_empty_tree_fwd.

Theorem C09d_empty_tree_rev : forall (H : history) rl u, root (H rl) = None -> last_query (H rl) u None.
Proof. exact rseek_empty_query. Qed.
Print Assumptions C09d_empty_tree_rev.

(** the forward seek and scan of C09c with root leaves and the empty tree included *)
Theorem C09d_root_leaf_fwd_seek : forall H, disciplined H -> stays_reachable H -> fullpath_stable H -> wf_history H ->
  forall lo rl t1 t2 pos, seek_result0 H lo rl t1 t2 pos ->
  (rl <= t1 <= t2)%nat /\ t2 = ip_at pos /\ gpos_ok H pos /\
  wquery H t1 t2 false lo (Some (ip_key pos, ip_val pos)).
Proof. exact seek_result0_ok. Qed.
Print Assumptions C09d_root_leaf_fwd_seek.

Theorem C09d_root_leaf_fwd_seek_end : forall H, disciplined H -> stays_reachable H -> fullpath_stable H -> wf_history H ->
  forall lo rl T, seek_end0 H lo rl T -> (rl <= T)%nat /\ first_query (H T) false lo None.
Proof. exact seek_end0_ok. Qed.
Print Assumptions C09d_root_leaf_fwd_seek_end.

Theorem C09d_root_leaf_fwd_scan_is_chain : forall H, disciplined H -> stays_reachable H -> fullpath_stable H -> wf_history H ->
  forall t lo ds e, iter_scan0 H t lo ds e -> wscan H t false lo ds /\ run_end H t false lo ds e.
Proof. exact iter_scan0_wscan. Qed.
Print Assumptions C09d_root_leaf_fwd_scan_is_chain.

Theorem C09d_root_leaf_fwd_scan : forall H, disciplined H -> stays_reachable H -> fullpath_stable H -> wf_history H ->
  forall t lo ds e, iter_scan0 H t lo ds e ->
  StronglySorted lex_lt (wkeys ds) /\ Forall (lex_le lo) (wkeys ds) /\
  Forall (fun d : delivery => let '(t1, t2, k, v) := d in
            (t <= t1)%nat /\ exists T, (t1 <= T <= t2)%nat /\ entry (H T) k v) ds /\
  (forall k, (forall t', ~ has_key (H t') k) -> ~ In k (wkeys ds)) /\
  (forall k, lex_le lo k -> ~ above (fst (wfinal_bound false lo ds)) (snd (wfinal_bound false lo ds)) k ->
     (forall t', (t <= t' <= wlast_moment t ds)%nat -> has_key (H t') k) -> In k (wkeys ds)) /\
  (forall te k, e = Some te -> lex_le lo k ->
     (forall t', (t <= t' <= te)%nat -> has_key (H t') k) -> In k (wkeys ds)).
Proof. exact iter_scan0_c09. Qed.
Print Assumptions C09d_root_leaf_fwd_scan.

(** ** Non-vacuity *)

(** a reverse scan from [3;0] over the history of C09c_nonvacuous delivers
    [2;7], [1;3], [1;1] and ends at moment 19; the writer inserts [2;9]
    (below the bound) at moment 14, between the second and the third step *)
Example C09d_nonvacuous :
  disciplined Hx /\ stays_reachable Hx /\ fullpath_stable Hx /\ wf_history Hx /\
  riter_scan Hx 0 (UKey false [3; 0])
    [(1%nat, 5%nat, [2; 7], [270]); (8%nat, 12%nat, [1; 3], [130]); (15%nat, 16%nat, [1; 1], [110])] (Some 19%nat) /\
  below (UKey false [3; 0]) [2; 9] /\ ~ has_key (Hx 13%nat) [2; 9] /\ has_key (Hx 14%nat) [2; 9].
Proof.
  split; [exact Hx_disciplined|]. split; [exact Hx_stays_reachable|]. split; [exact Hx_fullpath|].
  split; [exact Hx_wf|]. split; [exact rx_scan|]. split; [exact rx_writer_below | exact x_writer].
Qed.
Print Assumptions C09d_nonvacuous.

(** the root pointer points to the leaf [1;1]; a writer splits it at moment 3
    (inserting [1;2]); a forward and a reverse scan that read-locked the leaf
    at moment 1 and re-validate it at moment 5 deliver it and end *)
Example C09d_root_leaf_nonvacuous :
  disciplined Hl /\ stays_reachable Hl /\ fullpath_stable Hl /\ wf_history Hl /\ leafpos_ok Hl posl /\
  iter_scan0 Hl 0 [] [(0%nat, 1%nat, [1; 1], [110])] (Some 1%nat) /\
  riter_scan Hl 0 UInf [(0%nat, 1%nat, [1; 1], [110])] (Some 1%nat) /\
  ~ has_key (Hl 2%nat) [1; 2] /\ has_key (Hl 3%nat) [1; 2].
Proof.
  split; [exact Hl_disciplined|]. split; [exact Hl_stays_reachable|]. split; [exact Hl_fullpath|].
  split; [exact Hl_wf|]. split; [exact l_leafpos|]. split; [exact l_scan_fwd|].
  split; [exact l_scan_rev | exact l_writer].
Qed.
Print Assumptions C09d_root_leaf_nonvacuous.

(** ... and the end is NOT the answer of the tree at the moment of the
    re-validation (5): [1;2] is in the tree then.  It is the answer of the
    tree at the moment the leaf was read-locked (1). *)
Theorem C09d_root_leaf_end_not_at_revalidation :
  disciplined Hl /\ stays_reachable Hl /\ fullpath_stable Hl /\ wf_history Hl /\ leafpos_ok Hl posl /\
  next_none Hl posl 5 [] /\ ~ succ_query (Hl 5%nat) (ip_key posl) None /\
  succ_query (Hl (ip_at posl)) (ip_key posl) None.
Proof.
  split; [exact Hl_disciplined|]. split; [exact Hl_stays_reachable|]. split; [exact Hl_fullpath|].
  split; [exact Hl_wf|]. split; [exact l_leafpos|]. split; [exact l_next_none|].
  split; [exact l_end_not_at_5|].
  exact (leafpos_first_none Hl posl true (ip_key posl) Hl_wf l_leafpos (lex_lt_irrefl _)).
Qed.
Print Assumptions C09d_root_leaf_end_not_at_revalidation.

(** ** The atomic reading of a reverse step is false: a history that
    satisfies every condition, a successful try_prior from "25" delivering
    "19" (so the interval query holds), and no moment at which "19" is the
    predecessor of "25" *)
Theorem C09d_step_not_atomic :
  disciplined Hr /\ stays_reachable Hr /\ fullpath_stable Hr /\ wf_history Hr /\ pos_ok Hr posr /\
  prior_some Hr posr 1 [(er2, 2%nat)] er0 8 1 1%nat [] [ir1] ar [1; 9] [1; 9] [190] /\
  rquery Hr 1 6 (UKey true [2; 5]) (Some ([1; 9], [190])) /\
  forall T, ~ pred_query (Hr T) [2; 5] (Some ([1; 9], [190])).
Proof.
  split; [exact Hr_disciplined|]. split; [exact Hr_stays_reachable|]. split; [exact Hr_fullpath|].
  split; [exact Hr_wf|]. split; [exact posr_ok|]. split; [exact stepr|].
  split; [exact stepr_interval | exact rstep_not_atomic].
Qed.
Print Assumptions C09d_step_not_atomic.

(** the same scan read as scan_range(from = [3;0], to = [1;2]): fn saw [2;7]
    and [1;3]; the loop stopped on [1;1] <= [1;2] *)
Example C09d_range_nonvacuous :
  riter_scan Hx 0 (UKey false [3; 0])
    ([(1%nat, 5%nat, [2; 7], [270]); (8%nat, 12%nat, [1; 3], [130])] ++ [(15%nat, 16%nat, [1; 1], [110])]) (Some 19%nat) /\
  range_stop [1; 2] [(1%nat, 5%nat, [2; 7], [270]); (8%nat, 12%nat, [1; 3], [130])] (15%nat, 16%nat, [1; 1], [110]).
Proof.
  split; [exact rx_scan|]. split.
  - repeat constructor.
  - cbn. unfold lex_le. cbn. discriminate.
Qed.
Print Assumptions C09d_range_nonvacuous.

(** why the reverse theorems are not obtained from the forward ones through
    the byte complement b -> 255 - b: on byte strings of different lengths
    the complement is not an order anti-isomorphism (a proper prefix stays
    smaller), and search keys / the keys a query quantifies over may be
    proper prefixes of keys of the tree *)
Example C09d_complement_is_no_mirror :
  let m := map (fun b => 255 - b) in
  lex_lt [1] [1; 2] /\ lex_lt (m [1]) (m [1; 2]).
Proof. split; reflexivity. Qed.
Print Assumptions C09d_complement_is_no_mirror.
