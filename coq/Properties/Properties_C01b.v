(** C01b — tie of the sequential ART model's key prefixes to the source.

    The model (Art/ArtModel.v) keeps the compressed path of an inner node as a
    byte list [p] in [Inode c p ch] and computes on it with [shared_len],
    [firstn], [skipn], [++] and [common_pad] on zero-padded windows.  The C++
    keeps it as one 64-bit word (art_internal_impl.hpp, union key_prefix: 7
    prefix bytes + 1 length byte) and computes with xor / count-trailing-zeros
    / shifts / masks.  Gen/GenKeyPrefix.v is regenerated from the header's AST
    on every run (tools/gen.py prefix); the theorems below state that each word
    function, under the ranges its UNODB_DETAIL_ASSERTs demand, is defined
    (all its assertions hold, no shift out of range, no signed overflow),
    returns a well-formed word, and acts on [prefix_bytes] like the list
    function the model uses. *)
From Coq Require Import List ZArith Bool.
From Unodb Require Import Base.Bytes Base.WordBytes Art.ArtModel Gen.GenKeyPrefix Art.ArtPrefixBridge.
Import ListNotations.
Local Open Scope Z_scope.

(** length(): the number of prefix bytes, at most key_prefix_capacity *)
Theorem C01b_length : forall w, wf_prefix w ->
  kp_length_defined w = true /\ kp_length w = Z.of_nat (length (prefix_bytes w)).
Proof. exact bridge_kp_length. Qed.
Print Assumptions C01b_length.

Theorem C01b_capacity : forall w, wf_prefix w ->
  bytes_ok (prefix_bytes w) /\ (length (prefix_bytes w) <= prefix_capacity)%nat.
Proof. exact (fun w W => conj (prefix_bytes_ok w) (prefix_bytes_capacity w W)). Qed.
Print Assumptions C01b_capacity.

(** length_to_word(length) *)
Theorem C01b_length_to_word : forall n, 0 <= n <= 7 ->
  kp_length_to_word_defined n = true /\
  wf_prefix (kp_length_to_word n) /\ prefix_bytes (kp_length_to_word n) = le_bytes (Z.to_nat n) 0.
Proof. exact bridge_kp_length_to_word. Qed.
Print Assumptions C01b_length_to_word.

(** shared_len(k1, k2, clamp_byte_pos): xor, sentinel bit, countr_zero, >> 3 is the
    number of equal leading bytes of the two little-endian words, at most the clamp *)
Theorem C01b_shared_len : forall k1 k2 c,
  0 <= k1 < 2 ^ 64 -> 0 <= k2 < 2 ^ 64 -> 0 <= c < 8 ->
  kp_shared_len_defined k1 k2 c = true /\
  kp_shared_len k1 k2 c = Z.of_nat (common_pad (Z.to_nat c) (le_bytes 8 k1) (le_bytes 8 k2)).
Proof. exact bridge_kp_shared_len. Qed.
Print Assumptions C01b_shared_len.

(** get_shared_length(shifted_key_u64) = the model's shared_len p rem *)
Theorem C01b_get_shared_length : forall rem w, wf_prefix w -> bytes_ok rem ->
  kp_get_shared_length_defined (key_word rem) w = true /\
  kp_get_shared_length (key_word rem) w = Z.of_nat (shared_len (prefix_bytes w) rem).
Proof. exact bridge_kp_get_shared_length. Qed.
Print Assumptions C01b_get_shared_length.

Theorem C01b_get_shared_length_key : forall k w,
  kp_get_shared_length_key k w = kp_get_shared_length k w /\
  kp_get_shared_length_key_defined k w = kp_get_shared_length_defined k w.
Proof. exact bridge_kp_get_shared_length_key. Qed.
Print Assumptions C01b_get_shared_length_key.

(** operator[](i) = the model's byte_at p i *)
Theorem C01b_at : forall i w, wf_prefix w -> 0 <= i < kp_len w ->
  kp_at_defined i w = true /\ byte_at (prefix_bytes w) (Z.to_nat i) = Ok (kp_at i w).
Proof. exact bridge_kp_at. Qed.
Print Assumptions C01b_at.

(** cut(cut_len) = skipn cut_len p *)
Theorem C01b_cut : forall n w, wf_prefix w -> 0 < n <= kp_len w ->
  kp_cut_defined n w = true /\ wf_prefix (kp_cut n w) /\
  prefix_bytes (kp_cut n w) = skipn (Z.to_nat n) (prefix_bytes w).
Proof. exact bridge_kp_cut. Qed.
Print Assumptions C01b_cut.

(** prepend(prefix1, prefix2) = prefix1 ++ prefix2 :: p *)
Theorem C01b_prepend : forall w1 b w3,
  wf_prefix w1 -> wf_prefix w3 -> is_byte b -> kp_len w3 + kp_len w1 < 7 ->
  kp_prepend_defined w1 b w3 = true /\ wf_prefix (kp_prepend w1 b w3) /\
  prefix_bytes (kp_prepend w1 b w3) = prefix_bytes w1 ++ b :: prefix_bytes w3.
Proof. exact bridge_kp_prepend. Qed.
Print Assumptions C01b_prepend.

Theorem C01b_prepend_model : forall w1 b w3 c ch,
  wf_prefix w1 -> wf_prefix w3 -> is_byte b -> kp_len w3 + kp_len w1 < 7 ->
  prepend_prefix (prefix_bytes w1) b (Inode c (prefix_bytes w3) ch)
  = Inode c (prefix_bytes (kp_prepend w1 b w3)) ch.
Proof. exact bridge_kp_prepend_model. Qed.
Print Assumptions C01b_prepend_model.

(** key_prefix(key_prefix_len, source) = firstn key_prefix_len p (prefix split) *)
Theorem C01b_init_len_src : forall n src, 0 <= src < 2 ^ 64 -> 0 <= n <= 7 ->
  kp_init_len_src_defined n src = true /\ wf_prefix (kp_init_len_src n src) /\
  prefix_bytes (kp_init_len_src n src) = firstn (Z.to_nat n) (le_bytes 8 src) /\
  (wf_prefix src -> n <= kp_len src ->
   prefix_bytes (kp_init_len_src n src) = firstn (Z.to_nat n) (prefix_bytes src)).
Proof. exact bridge_kp_init_len_src. Qed.
Print Assumptions C01b_init_len_src.

(** make_u64(k1, shifted_k2, depth) (leaf split): the model's
    firstn (common_pad prefix_capacity k1rem rem) (pad8 k1rem) *)
Theorem C01b_make_u64 : forall k1rem rem, bytes_ok k1rem -> bytes_ok rem ->
  let n' := common_pad prefix_capacity k1rem rem in
  kp_make_u64_defined (key_word k1rem) (key_word rem) = true /\
  wf_prefix (kp_make_u64 (key_word k1rem) (key_word rem)) /\
  prefix_bytes (kp_make_u64 (key_word k1rem) (key_word rem)) = firstn n' (pad8 k1rem).
Proof. exact bridge_kp_make_u64. Qed.
Print Assumptions C01b_make_u64.

(** key_prefix_snapshot (the iterator's copy) computes the same functions *)
Theorem C01b_snapshot :
  (forall k1 k2 c, kps_shared_len k1 k2 c = kp_shared_len k1 k2 c /\
                   kps_shared_len_defined k1 k2 c = kp_shared_len_defined k1 k2 c) /\
  (forall w, kps_length w = kp_length w) /\
  (forall k w, kps_get_shared_length k w = kp_get_shared_length k w) /\
  (forall i w, kps_at i w = kp_at i w).
Proof. exact bridge_kps. Qed.
Print Assumptions C01b_snapshot.

Theorem C01b_snapshot_get_shared_length : forall rem w, wf_prefix w -> bytes_ok rem ->
  kps_get_shared_length_defined (key_word rem) w = true /\
  kps_get_shared_length (key_word rem) w = Z.of_nat (shared_len (prefix_bytes w) rem).
Proof. exact bridge_kps_get_shared_length. Qed.
Print Assumptions C01b_snapshot_get_shared_length.

Theorem C01b_snapshot_at : forall i w, wf_prefix w -> 0 <= i < kp_len w ->
  kps_at_defined i w = true /\ byte_at (prefix_bytes w) (Z.to_nat i) = Ok (kps_at i w).
Proof. exact bridge_kps_at. Qed.
Print Assumptions C01b_snapshot_at.

Theorem C01b_constants :
  kp_capacity = Z.of_nat prefix_capacity /\ kp_key_bytes_mask = 2 ^ 56 - 1.
Proof. exact bridge_kp_constants. Qed.
Print Assumptions C01b_constants.

(** non-vacuity: the word 0x03_00000000_CCBBAA holds the prefix AA BB CC; cutting one
    byte and prepending the prefix [11] and the byte 22 gives 11 22 BB CC *)
Example C01b_nonvacuous :
  wf_prefix 216172782127201194 /\ prefix_bytes 216172782127201194 = [170; 187; 204] /\
  prefix_bytes (kp_cut 1 216172782127201194) = [187; 204] /\
  prefix_bytes (kp_prepend 72057594037927953 34 (kp_cut 1 216172782127201194)) = [17; 34; 187; 204] /\
  kp_get_shared_length (key_word [170; 187; 1; 2]) 216172782127201194 = 2.
Proof. unfold wf_prefix. repeat split; try reflexivity; vm_compute; congruence. Qed.
Print Assumptions C01b_nonvacuous.
