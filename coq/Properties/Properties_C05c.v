(** C05c — safety of QSBR for ALL interleavings of the atomic accesses.

    Qsbr/QsbrFine.v is the fine-grained model of qsbr.hpp / qsbr.cpp: one step
    per atomic access of the state word and of the two orphan lists, validated
    as an acceptor against the traces of the real implementation.  The ghost
    [fbad s] records every free that happened while a thread that was
    registered (and outside quiescent()) when the block was retired had not
    since entered quiescent() / unregister.

    Proved here for every accepted event sequence from the initial state, for
    any number of threads, with the blocks retired pairwise distinct (the same
    hypothesis as the coarse theorem C05): no unsafe free; exactly once; the
    thread count of the state word.  The proof is by an inductive invariant
    [Inv] (Qsbr/QsbrFineInv.v) preserved by every step (QsbrFineStepA..H). *)
From Coq Require Import List ZArith Bool Permutation.
From Unodb Require Import Qsbr.QsbrModel Qsbr.QsbrFine Qsbr.QsbrFineInv Qsbr.QsbrFinePend Qsbr.QsbrFineProofs.
Import ListNotations.
Local Open Scope Z_scope.

(** the hypotheses, spelled out *)
Example C05c_distinct_retires_def : forall evs,
  distinct_retires evs <->
  NoDup (flat_map (fun e => match e with FRetire _ p => [p] | _ => [] end) evs).
Proof. intros. reflexivity. Qed.

Example C05c_init_ok_def : forall n e, fine_init_ok n e <-> 0 <= e < 4.
Proof. intros. reflexivity. Qed.

(** SAFETY for all interleavings *)
Theorem C05c_fine_safe : forall n e evs s, fine_init_ok n e ->
  frun (finit n e) evs = Some s -> distinct_retires evs -> fbad s = [].
Proof. exact fine_safe. Qed.
Print Assumptions C05c_fine_safe.

(** the inductive invariant holds in every reachable state *)
Theorem C05c_fine_invariant : forall n e evs s, fine_init_ok n e ->
  frun (finit n e) evs = Some s -> distinct_retires evs -> Inv s.
Proof. exact fine_reach_inv. Qed.
Print Assumptions C05c_fine_invariant.

(** one step: the invariant is preserved and only a safe free can happen *)
Theorem C05c_fine_step : forall s e s', Inv s -> fstep s e = Some s' ->
  (forall p, In p (ev_retired e) -> ~ In p (fpending s)) ->
  Inv s' /\ f_bad s' = f_bad s.
Proof. exact fstep_inv. Qed.
Print Assumptions C05c_fine_step.

(** EXACTLY ONCE (no hypothesis on the history): pending + freed = retired *)
Theorem C05c_fine_exactly_once : forall n e evs s,
  frun (finit n e) evs = Some s ->
  Permutation (fpending s ++ freed_of evs) (retired_of evs).
Proof. exact fine_exactly_once. Qed.
Print Assumptions C05c_fine_exactly_once.

Theorem C05c_fine_freed_nodup : forall n e evs s,
  frun (finit n e) evs = Some s -> distinct_retires evs -> NoDup (fpending s ++ freed_of evs).
Proof. exact fine_freed_nodup. Qed.
Print Assumptions C05c_fine_freed_nodup.

(** ... and in terms of the freed set of the final state, without re-allocation *)
Theorem C05c_fine_exactly_once_state : forall n e evs s,
  frun (finit n e) evs = Some s -> no_alloc evs ->
  Permutation (fpending s ++ f_freed s) (retired_of evs).
Proof. exact fine_exactly_once_state. Qed.
Print Assumptions C05c_fine_exactly_once_state.

(** THREAD COUNT at states where no thread is inside register / unregister *)
Theorem C05c_fine_thread_count : forall n e evs s, fine_init_ok n e ->
  frun (finit n e) evs = Some s -> distinct_retires evs ->
  (forall u, ft_pc (get_fthr s u) = PIdle \/ is_qr (ft_op (get_fthr s u)) = true) ->
  w_T (f_w s) = Z.of_nat (length (filter (fun x => t_reg (ft x)) (f_thr s))).
Proof. exact fine_thread_count. Qed.
Print Assumptions C05c_fine_thread_count.

(** non-vacuity: accepted example traces of QsbrFine.v satisfy the hypotheses *)
Example C05c_nonvacuous_1 :
  fine_init_ok 1 0 /\ distinct_retires ex_tr1 /\
  exists s, frun (finit 1 0) ex_tr1 = Some s /\ fbad s = [] /\ f_freed s = [100].
Proof.
  split; [cbv; intuition discriminate|]. split.
  - cbv. repeat constructor. intros [].
  - destruct (frun (finit 1 0) ex_tr1) as [s|] eqn:H; [|vm_compute in H; discriminate].
    exists s. split; [reflexivity|]. vm_compute in H. inversion H. split; reflexivity.
Qed.

Definition ex_tr3 : list fevent :=
  ex_tr2 ++ [FAlloc 1%nat 100; FCall 1%nat OpRetire 100; FRetire 1%nat 100; FCall 0%nat OpQuiescent 0].

Example C05c_nonvacuous_2 :
  fine_init_ok 2 0 /\ distinct_retires ex_tr3 /\
  exists s, frun (finit 2 0) ex_tr3 = Some s /\ fpending s = [100] /\ w_T (f_w s) = 2.
Proof.
  split; [cbv; intuition discriminate|]. split.
  - cbv. repeat constructor. intros [].
  - destruct (frun (finit 2 0) ex_tr3) as [s|] eqn:H; [|vm_compute in H; discriminate].
    exists s. split; [reflexivity|]. vm_compute in H. inversion H. split; reflexivity.
Qed.
