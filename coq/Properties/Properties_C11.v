(** C11 — key encoding is order-preserving.  Statements only; each closed by
    [exact] of a lemma proved elsewhere; [Print Assumptions] under each. *)
From Coq Require Import List ZArith.
From Unodb Require Import Base.Lex Base.Bytes Encode.EncModel Encode.EncOrder Encode.EncTuple Encode.EncBridge.
From Unodb Require Import Gen.GenEncode Gen.GenFloat.
Local Open Scope Z_scope.

Theorem C11_uint : forall n a b, in_u n a -> in_u n b ->
  lex_compare (enc_uint n a) (enc_uint n b) = Z.compare a b.
Proof. exact enc_uint_order. Qed.
Print Assumptions C11_uint.

Theorem C11_int : forall n a b, (1 <= n)%nat -> in_i n a -> in_i n b ->
  lex_compare (enc_int n a) (enc_int n b) = Z.compare a b.
Proof. exact enc_int_order. Qed.
Print Assumptions C11_int.

Theorem C11_float : forall f x y, fmt_ok f -> fword f x -> fword f y ->
  (lex_lt (enc_float f x) (enc_float f y) <-> ftotal_lt f x y).
Proof. exact enc_float_order. Qed.
Print Assumptions C11_float.

Theorem C11_float_nan_equal : forall f x y, fmt_ok f -> fword f x -> fword f y ->
  (enc_float f x = enc_float f y <-> fcanon f x = fcanon f y).
Proof. exact enc_float_eq_iff. Qed.
Print Assumptions C11_float_nan_equal.

Theorem C11_text : forall a b, bytes_ok a -> bytes_ok b -> NoInteriorZero a -> NoInteriorZero b ->
  lex_compare (enc_text a) (enc_text b) = lex_compare (text_norm a) (text_norm b).
Proof. exact enc_text_order. Qed.
Print Assumptions C11_text.

Theorem C11_tuple : forall cs ds,
  map ty_of cs = map ty_of ds -> Forall comp_ok cs -> Forall comp_ok ds ->
  (lex_lt (enc_tuple cs) (enc_tuple ds) <-> tuple_lt cs ds).
Proof. exact enc_tuple_order. Qed.
Print Assumptions C11_tuple.

(** Tie to the source (regenerated definitions). *)
Theorem C11_bridge_int :
  (forall v, in_i 1 v -> enc_int 1 v = enc_uint 1 (enc_i8 v) /\ enc_i8_defined v = true) /\
  (forall v, in_i 2 v -> enc_int 2 v = enc_uint 2 (enc_i16 v) /\ enc_i16_defined v = true) /\
  (forall v, in_i 4 v -> enc_int 4 v = enc_uint 4 (enc_i32 v) /\ enc_i32_defined v = true) /\
  (forall v, in_i 8 v -> enc_int 8 v = enc_uint 8 (enc_i64 v) /\ enc_i64_defined v = true).
Proof. exact bridge_enc_int. Qed.
Print Assumptions C11_bridge_int.

Theorem C11_bridge_f32 : forall x, fword f32 x -> encf32 x = enc_float_word f32 x /\ encf32_defined x = true.
Proof. exact bridge_encf32. Qed.
Print Assumptions C11_bridge_f32.

Theorem C11_bridge_f64 : forall x, fword f64 x -> encf64 x = enc_float_word f64 x /\ encf64_defined x = true.
Proof. exact bridge_encf64. Qed.
Print Assumptions C11_bridge_f64.

Theorem C11_bridge_maxlen : gen_maxlen = maxlen.
Proof. exact gen_maxlen_ok. Qed.
Print Assumptions C11_bridge_maxlen.

(** Non-vacuity: the hypotheses are inhabited by non-trivial values. *)
Example C11_nonvacuous :
  in_i 8 (-5) /\ in_i 8 7 /\ fword f64 13830554455654793216 (* -0.5 *) /\ fmt_ok f64
  /\ NoInteriorZero (97 :: 0 :: 0 :: nil) /\ lex_lt (enc_int 8 (-5)) (enc_int 8 7).
Proof.
  repeat split; try (vm_compute; congruence); try exact f64_ok.
  unfold NoInteriorZero, no_zero. vm_compute. intuition congruence.
Qed.
