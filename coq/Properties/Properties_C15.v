(** C15 — encoded keys satisfy the index's prefix-freedom contract. *)
From Coq Require Import List ZArith Lia.
From Unodb Require Import Base.Lex Base.Bytes Encode.EncModel Encode.EncOrder Encode.EncTuple.
Local Open Scope Z_scope.

Theorem C15_eq_iff : forall cs ds,
  map ty_of cs = map ty_of ds -> Forall comp_ok cs -> Forall comp_ok ds ->
  (enc_tuple cs = enc_tuple ds <-> map comp_canon cs = map comp_canon ds).
Proof. exact enc_tuple_eq_iff. Qed.
Print Assumptions C15_eq_iff.

Theorem C15_prefix : forall cs ds,
  map ty_of cs = map ty_of ds -> Forall comp_ok cs -> Forall comp_ok ds ->
  is_prefix (enc_tuple cs) (enc_tuple ds) = true -> enc_tuple cs = enc_tuple ds.
Proof. exact enc_tuple_prefix_free. Qed.
Print Assumptions C15_prefix.

Theorem C15_text_io : forall t,
  enc_text t = enc_text (firstn (Z.to_nat maxlen) t) /\ Z.of_nat (length (enc_text t)) <= maxlen + 3.
Proof. exact enc_text_io. Qed.
Print Assumptions C15_text_io.

(** Why the property's own "no interior zero" restriction is needed. *)
Theorem C15_interior_zero_refuted :
  exists a b, a <> b /\ bytes_ok a /\ bytes_ok b /\ is_prefix (enc_text a) (enc_text b) = true
              /\ enc_text a <> enc_text b.
Proof. exact enc_text_interior_zero_refuted. Qed.
Print Assumptions C15_interior_zero_refuted.

Example C15_nonvacuous :
  Forall comp_ok (CText (104 :: 105 :: 0 :: nil) :: CI 4 (-1) :: nil)
  /\ comp_canon (CText (104 :: 105 :: 0 :: nil)) = CText (104 :: 105 :: nil).
Proof.
  split; [|vm_compute; reflexivity].
  repeat constructor; try (unfold is_byte; lia); try (vm_compute; congruence).
  unfold NoInteriorZero, no_zero. vm_compute. intuition congruence.
Qed.
