(** C03, the read protocol on the implementation's traces: what acceptance by
    Olc/Protocol.op_ok (run on the events of every get / insert / remove of
    every sampled execution) means. *)
From Coq Require Import List Bool Arith ZArith.
From Unodb Require Import Olc.Protocol Olc.ProtocolProofs.
Import ListNotations.

(** no unvalidated read: every field load of the last attempt is under the
    thread's own write guard, on a node the thread allocated or obsoleted
    itself, or is followed by a successful validation of that node *)
Theorem C03_protocol_loads : forall l ho, loads_covered ho l = true ->
  forall i n, nth_error l i = Some (PLoad n) ->
    In n (fst (fold_left upd (firstn i l) ho)) \/ In n (snd (fold_left upd (firstn i l) ho)) \/
    exists j e, (i < j)%nat /\ nth_error l j = Some e /\ validates n e = true.
Proof. exact loads_covered_spec. Qed.
Print Assumptions C03_protocol_loads.

(** lock coupling: a section is validated after the next section was opened
    (h_lock child <= h_check parent of Olc/ReadModel.v) *)
Theorem C03_protocol_coupling : forall l, coupled l = true ->
  forall i n w, nth_error l i = Some (PRLock n true w) ->
  forall j m w', (i < j)%nat -> nth_error l j = Some (PRLock m true w') ->
    (forall q, (i < q < j)%nat -> forall e, nth_error l q = Some e -> is_open e = false) ->
    exists q e, (j < q)%nat /\ nth_error l q = Some e /\ validates n e = true.
Proof. exact coupled_spec. Qed.
Print Assumptions C03_protocol_coupling.

Theorem C03_protocol_ok : forall l, op_ok l = true ->
  loads_covered ([], allocs l) (last_attempt l) = true /\ coupled (last_attempt l) = true /\ held_at_end l = [] /\
  versions_own [] l = true.
Proof. exact op_ok_spec. Qed.
Print Assumptions C03_protocol_ok.

(** a saved version is only ever used to validate the node it was read from
    (also demanded of every scan: the versions on the iterator's stack) *)
Theorem C03_protocol_versions : forall l seen, versions_own seen l = true ->
  forall i n ok v, (nth_error l i = Some (PCheck n ok v) \/ nth_error l i = Some (PUpgrade n ok v)) ->
    In (n, v) seen \/ exists j ok', (j < i)%nat /\ nth_error l j = Some (PRLock n ok' v).
Proof. exact versions_own_spec. Qed.
Print Assumptions C03_protocol_versions.

(** non-vacuity: the event shape of a get that descends root pointer -> inner node -> leaf,
    and the shape of the reordered (broken) descent, which is rejected *)
Example C03_protocol_nonvacuous :
  let r n := PRLock n true 0%Z in let c n := PCheck n true 0%Z in
  op_ok [r 0; PLoad 0; c 0; r 5; c 0; PLoad 5; PLoad 5; c 5; r 7; c 5; c 7] = true /\
  op_ok [r 0; PLoad 0; c 0; r 5; c 0; PLoad 5; PLoad 5; c 5; r 7; c 7] = false /\
  op_ok [r 0; PLoad 0; c 0; r 5; c 0; PLoad 5; PLoad 5] = false /\
  scan_ok [PRLock 0 true 8%Z; PRLock 5 true 4%Z; PCheck 0 true 8%Z; PCheck 5 true 8%Z] = false.
Proof. vm_compute. repeat split; reflexivity. Qed.

(** R1 for scans (added after the seeded change C09/5, a dropped re-validation
    of the node on one try_seek path): in an accepted scan without failed
    validations every field load is followed by a successful validation of
    the node it was made from *)
Theorem C03_protocol_scan_loads : forall l, scan_ok l = true -> forallb (fun x => negb (is_failure x)) l = true ->
  forall a n b, l = a ++ PLoad n :: b -> existsb (validates n) b = true.
Proof. exact scan_loads_validated. Qed.
Print Assumptions C03_protocol_scan_loads.

Example C03_protocol_scan_nonvacuous :
  let r n := PRLock n true 0%Z in let c n := PCheck n true 0%Z in
  scan_ok [r 0; PLoad 0; c 0; r 5; PLoad 5; PLoad 5; c 5; r 7; c 7] = true /\
  scan_ok [r 0; PLoad 0; c 0; r 5; PLoad 5; PLoad 5; r 7; c 7] = false /\
  scan_ok [r 0; PLoad 0; c 0; r 5; PLoad 5; PLoad 5; PCheck 5 false 0%Z; r 0] = true.
Proof. vm_compute. repeat split; reflexivity. Qed.

(** R6 (added after the round-3 seed C04/7, a dropped "check() before acting on
    the child" in the iterator's left-most descent): whenever a node other
    than the root pointer lock is read-locked in an accepted operation / scan,
    no load from ANOTHER node is still waiting for its validation *)
Theorem C03_protocol_pointer_validated : forall l ho pending a c ok w b,
  l = a ++ PRLock c ok w :: b -> ptr_validated ho pending l = true -> beq c root_blk = false ->
  exists ho' pending', ptr_validated ho' pending' (PRLock c ok w :: b) = true /\
     (pending' = None \/ pending' = Some c).
Proof. exact ptr_validated_app_rlock. Qed.
Print Assumptions C03_protocol_pointer_validated.

Example C03_protocol_pointer_nonvacuous :
  let r n := PRLock n true 0%Z in let c n := PCheck n true 0%Z in
  (* try_get: root pointer loaded, checked, then the node locked; child pointer loaded, node checked, child locked *)
  op_ok [r 0; PLoad 0; c 0; r 5; c 0; PLoad 5; PLoad 5; c 5; r 7; c 5; c 7] = true /\
  (* the check between the load of the child pointer and the lock of the child is missing *)
  op_ok [r 0; PLoad 0; c 0; r 5; c 0; PLoad 5; PLoad 5; r 7; c 5; c 7] = false /\
  scan_ok [r 0; PLoad 0; c 0; r 5; c 0; PLoad 5; r 7; c 5; c 7] = false.
Proof. vm_compute. repeat split; reflexivity. Qed.
