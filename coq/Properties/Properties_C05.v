(** C05 — QSBR never frees memory another registered thread may still
    reference.  Coarse model: every API call atomic; any number of threads,
    any history respecting the API preconditions. *)
From Coq Require Import List ZArith Bool.
From Unodb Require Import Qsbr.QsbrModel Qsbr.QsbrProofs.
Import ListNotations.
Local Open Scope Z_scope.

(** pointers handed to deferred deallocation by a history *)
Definition retired (ops : list qop) : list ptr :=
  flat_map (fun o => match o with QRetire _ p => [p] | _ => [] end) ops.

(** Every block freed by any call of any history has an empty waiting set at
    that moment: no thread other than the requester that was registered when
    the request was made is still to pass a quiescent state, pause or exit.
    ([qrun] collects in its third component every (block, waiting set) freed
    with a non-empty waiting set.)  The history must not hand the same block
    to deferred deallocation twice (that is a caller-side double free, and
    the model's ghost waiting sets are keyed by block address; see
    [qrun_safe_needs_nodup] in QsbrProofs.v for the counterexample). *)
Theorem C05_safe_coarse : forall n ops s fs bads,
  qrun (qinit n) ops = Some (s, fs, bads) -> NoDup (retired ops) -> bads = [].
Proof. exact qrun_safe. Qed.
Print Assumptions C05_safe_coarse.

(** Only when at most one thread is registered may a request be executed at
    once (inside the retire call itself). *)
Theorem C05_immediate : forall n ops s fs bads t p,
  qrun (qinit n) ops = Some (s, fs, bads) -> op_enabled s (QRetire t p) = true ->
  ~ In p (pending s) -> In p (snd (q_retire s t p)) -> registered_count s <= 1.
Proof. exact immediate_only_single. Qed.
Print Assumptions C05_immediate.

Example C05_nonvacuous :
  exists s fs, qrun (qinit 3)
     [QRegister 0%nat; QRegister 1%nat; QRetire 0%nat 7; QQuiescent 1%nat; QQuiescent 0%nat; QQuiescent 1%nat;
      QQuiescent 0%nat; QQuiescent 0%nat] = Some (s, fs, []) /\ In [7] fs.
Proof. eexists. eexists. split; [vm_compute; reflexivity|]. cbn. tauto. Qed.
