(** C03, writer side, fine-grained: writers do not change the heap atomically.
    They write-lock the nodes they change or unlink one at a time (free word
    w -> w + 2), store field by field into nodes they hold or into private
    nodes, and unlock (w + 2 -> w + 4, or 1).  Several writers may be in
    flight on disjoint nodes; intermediate heaps are not trees.

    Olc/FineWrite.v models this with a ghost (who holds what; the VIEW, in
    which every in-flight writer is rolled back or rolled forward entirely).
    A writer's commit point is a ghost step taken while it holds every
    published node the commit changes (two-phase locking); there the view
    takes one atomic commit of Olc/WriteModel.v, or a bare version bump.

    Result: validated readers cannot tell a fine-grained history from the
    history of its views. *)
From Coq Require Import List ZArith Bool Arith.
From Unodb Require Import Lock.LockModel Olc.ReadModel Olc.ReadProofs Olc.WriteModel Olc.WriteShapes Olc.WriteProofs
  Olc.WriteExample Olc.FineWrite Olc.FineWriteProofs Olc.FineWriteExample.
Import ListNotations.

(** Level A.  All a reader needs: the view V moves by atomic steps, and the
    fine history H agrees with it wherever a lock word of H is free.  Then
    every validated run of H is, with the same moments and observations, a
    validated run of V, and is linearizable in V. *)
Theorem C03f_agree_run : forall H V, view_generated V -> agree H V ->
  forall k rn r, valid_run H k rn r -> valid_run V k rn r.
Proof. intros H V GV. apply run_transfer. apply view_generated_stepwise. exact GV. Qed.
Print Assumptions C03f_agree_run.

Theorem C03f_agree_reader : forall H V, view_generated V -> agree H V ->
  forall k rn r, valid_run H k rn r ->
  exists T, (r_lock rn <= T <= last_moment rn)%nat /\ lookup (V T) k r.
Proof. intros H V GV. apply agree_reader_linearizable. apply view_generated_stepwise. exact GV. Qed.
Print Assumptions C03f_agree_reader.

(** Level B.  The operational model (lock / store / private store / commit
    point / unlock, any number of writers) keeps the heap in agreement with
    its view, and the view moves by atomic commits and version bumps. *)
Theorem C03f_fine_agree : forall H G, fine_run H G -> view_generated (commit_view G) /\ agree H (commit_view G).
Proof. intros H G FR. split; [eapply fine_run_view_generated; exact FR | apply fine_run_agree; exact FR]. Qed.
Print Assumptions C03f_fine_agree.

(** a completed try_get on a fine-grained history is linearizable in the view *)
Theorem C03f_fine_reader : forall H G k rn r, fine_run H G -> valid_run H k rn r ->
  exists T, (r_lock rn <= T <= last_moment rn)%nat /\ lookup (commit_view G T) k r.
Proof. exact fine_reader_linearizable. Qed.
Print Assumptions C03f_fine_reader.

(** the map of the view changes only at commit points, there like insert / remove *)
Theorem C03f_fine_map : forall H G, fine_run H G -> forall t,
  (forall k r, lookup (commit_view G (S t)) k r <-> lookup (commit_view G t) k r) \/
  (exists k v, insert_effect k v (commit_view G t) (commit_view G (S t))) \/
  (exists k, remove_effect k (commit_view G t) (commit_view G (S t))).
Proof. exact fine_view_map_steps. Qed.
Print Assumptions C03f_fine_map.

(** the same without the ghost *)
Theorem C03f_fine_generated : forall H, fine_generated H ->
  exists V, view_generated V /\ agree H V /\
    (forall k rn r, valid_run H k rn r ->
       valid_run V k rn r /\ exists T, (r_lock rn <= T <= last_moment rn)%nat /\ lookup (V T) k r) /\
    (forall t, (forall k r, lookup (V (S t)) k r <-> lookup (V t) k r) \/
               (exists k v, insert_effect k v (V t) (V (S t))) \/
               (exists k, remove_effect k (V t) (V (S t)))).
Proof. exact fine_generated_reader. Qed.
Print Assumptions C03f_fine_generated.

(** the heap itself: contents of published nodes change only under the write
    lock; where no node of the view's tree is held, the heap has the view's map *)
Theorem C03f_free_node_step : forall H G, fine_run H G -> forall t n c,
  hp (H t) n = Some c -> hp (commit_view G t) n <> None -> w_is_free (word c) = true ->
  hp (H (S t)) n = Some c \/ hp (H (S t)) n = Some (mk (word c + 2) (cont c)).
Proof. exact fine_free_node_step. Qed.
Print Assumptions C03f_free_node_step.

Theorem C03f_quiescent_lookup : forall H G, fine_run H G -> forall t,
  (forall n q, reach (commit_view G t) n q -> owner (G t) n = None) -> rowner (G t) = None ->
  forall k r, lookup (commit_view G t) k r -> lookup (H t) k r.
Proof. exact fine_quiescent_lookup. Qed.
Print Assumptions C03f_quiescent_lookup.

(** the view is the heap with in-flight writers rolled back or forward: a
    node held by nobody has the view's cell (or is dead in both); a node held
    by a writer that has not yet passed a commit point has, in the view, the
    cell it had just before it was locked *)
Theorem C03f_unheld_cell : forall H G, fine_run H G -> forall t n cv,
  hp (commit_view G t) n = Some cv -> owner (G t) n = None ->
  exists ch, hp (H t) n = Some ch /\ (ch = cv \/ (word ch = 1%Z /\ word cv = 1%Z)).
Proof. exact fine_unheld_cell. Qed.
Print Assumptions C03f_unheld_cell.

Theorem C03f_rolled_back : forall H G n c w tl T, fine_run H G ->
  hp (H tl) n = Some c -> w_is_free (word c) = true -> hp (commit_view G tl) n <> None -> (tl <= T)%nat ->
  (forall t, (tl < t <= T)%nat -> owner (G t) n = Some w) ->
  (forall t, (tl <= t < T)%nat -> ~ own_commit (H t) (G t) w (G (S t))) ->
  hp (commit_view G T) n = Some c.
Proof. exact fine_view_rolled_back. Qed.
Print Assumptions C03f_rolled_back.

(** the atomic model is the special case in which the history is its own view *)
Theorem C03f_atomic_special_case : forall V, generated V -> view_generated V /\ agree V V.
Proof. exact generated_agree_self. Qed.
Print Assumptions C03f_atomic_special_case.

(** the writer's own descent: the premise at_inode of the commit shapes holds
    in the view at the writer's commit point, if its last check of the node
    is the upgrade CAS and it has held the node since (no commit point of its
    own in between); likewise for the root pointer, and for the cell of any
    node (leaf or inner) it validated and holds *)
Theorem C03f_writer_at_inode : forall H G k rn r a d p cs b w T,
  fine_run H G -> valid_run H k rn r -> In (a, d) (hop_depths 0 (r_hops rn)) ->
  h_cont a = CInode p cs -> prefix_at p d k -> nth_error k (d + length p) = Some b -> (h_check a <= T)%nat ->
  (forall t, (h_check a < t <= T)%nat -> owner (G t) (h_node a) = Some w) ->
  (forall t, (h_check a <= t < T)%nat -> ~ own_commit (H t) (G t) w (G (S t))) ->
  exists c, at_inode (commit_view G T) k (h_node a) d c p cs b /\ word c = h_word a.
Proof. exact writer_at_inode. Qed.
Print Assumptions C03f_writer_at_inode.

Theorem C03f_writer_root : forall H G k rn r w T,
  fine_run H G -> valid_run H k rn r -> (r_check rn <= T)%nat ->
  (forall t, (r_check rn < t <= T)%nat -> rowner (G t) = Some w) ->
  (forall t, (r_check rn <= t < T)%nat -> ~ own_commit (H t) (G t) w (G (S t))) ->
  root (commit_view G T) = r_ptr rn /\ root_word (commit_view G T) = r_word rn.
Proof. exact writer_root_in_view. Qed.
Print Assumptions C03f_writer_root.

Theorem C03f_writer_held_cell : forall H G k rn r a d w T,
  fine_run H G -> valid_run H k rn r -> In (a, d) (hop_depths 0 (r_hops rn)) -> (h_check a <= T)%nat ->
  (forall t, (h_check a < t <= T)%nat -> owner (G t) (h_node a) = Some w) ->
  (forall t, (h_check a <= t < T)%nat -> ~ own_commit (H t) (G t) w (G (S t))) ->
  (exists pth, reach (commit_view G T) (h_node a) pth) /\
  exists c, hp (commit_view G T) (h_node a) = Some c /\ word c = h_word a /\ cont c = h_cont a.
Proof. exact writer_held_cell_in_view. Qed.
Print Assumptions C03f_writer_held_cell.

(** non-vacuity (Olc/FineWriteExample.v): on the tree ex_g2 writer A inserts
    [1;4] in three phases (private leaf 3; lock node 1; store; commit point
    add_leaf; unlock) while writer B locks leaf 0 and releases it with a bare
    version bump; both are in flight at moment 4, where the heap shows node 1
    locked with the new slot and the view is still the old tree.  Reader A
    ([0,1], before the lock) misses the key, reader B ([7,9], after the
    unlock) finds it; no validated section of node 1 straddles the locked period. *)
Example C03f_example :
  fine_run fx_H fx_G /\
  (owner (fx_G 4) 1 = Some fx_wA /\ owner (fx_G 4) 0 = Some fx_wB) /\
  (exists c, hp (fx_H 4) 1 = Some c /\ w_is_free (word c) = false /\ cont c = CInode [1%Z] fx_cs /\
             commit_view fx_G 4 = ex_g2) /\
  valid_run fx_H fx_k fx_runA None /\ valid_run fx_H fx_k fx_runB (Some fx_v) /\
  (forall a, hop_observed fx_H a -> h_node a = 1 -> h_lock a <= 1 -> h_check a <= 1) /\
  (exists T, 0 <= T <= 1 /\ lookup (commit_view fx_G T) fx_k None) /\
  (exists T, 7 <= T <= 9 /\ lookup (commit_view fx_G T) fx_k (Some fx_v)).
Proof.
  split; [exact fx_fine_run|]. split; [exact fx_two_in_flight|]. split; [exact fx_locked|].
  split; [exact fx_validA|]. split; [exact fx_validB|]. split; [exact fx_no_straddle|].
  exact fx_readers_linearizable.
Qed.
Print Assumptions C03f_example.
