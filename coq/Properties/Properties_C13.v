(** C13 — mutex index: operations are atomic and a successful get pins the entry. *)
From Coq Require Import List String Bool Permutation.
From Unodb Require Import Mutex.MutexShape Mutex.MutexModel Mutex.MutexProofs Lin.LinCheck Lin.LinProofs Gen.GenMutexMethods.
Import ListNotations.

(** tie to the source: the method table regenerated from mutex_art.hpp has the required shapes *)
Theorem C13_shapes : well_bracketed mutex_methods = true.
Proof. vm_compute. reflexivity. Qed.
Print Assumptions C13_shapes.

(** every index operation of a well-bracketed table: takes the mutex, makes
    exactly one call into the wrapped index while holding it, and returns
    holding the lock exactly when it is the get shape and the key was found *)
Theorem C13_call_shape : forall tbl m t hit,
  well_bracketed tbl = true -> In m tbl -> exempt m = false ->
  exists l, exec_method tbl t hit m = Some l /\ call_shape t l /\
            (In (Return t true) l <-> hands_out_lock tbl m = true /\ hit = true).
Proof. exact call_shape_of_well_bracketed. Qed.
Print Assumptions C13_call_shape.

(** in every interleaving the mutex admits, of threads each performing such
    calls, a call into the wrapped index happens only while its thread holds
    the mutex: the calls are serialised (atomic) *)
Theorem C13_atomic : forall tr p t f r,
  mutex_ok None tr = true -> (forall u, thread_wf u (thread_events u tr) = true) ->
  tr = p ++ Body t f :: r -> holder_after None p = Some t.
Proof. exact body_under_lock. Qed.
Print Assumptions C13_atomic.

(** while a handle returned by a successful get is outstanding the mutex
    stays with that thread ... *)
Theorem C13_handle_keeps_lock : forall tr p t q r,
  mutex_ok None tr = true -> (forall v, thread_wf v (thread_events v tr) = true) ->
  tr = p ++ Return t true :: q ++ r -> ~ In (HandleRelease t) q ->
  holder_after None (p ++ Return t true :: q) = Some t.
Proof. exact holder_while_handle_held. Qed.
Print Assumptions C13_handle_keeps_lock.

(** ... hence no thread at all calls into the index before the handle is
    released: the entry can neither change nor disappear *)
Theorem C13_pinned : forall tr p t q u f r,
  mutex_ok None tr = true -> (forall v, thread_wf v (thread_events v tr) = true) ->
  tr = p ++ Return t true :: q ++ Body u f :: r -> ~ In (HandleRelease t) q -> False.
Proof. exact no_body_while_handle_held. Qed.
Print Assumptions C13_pinned.

(** non-vacuity of the hypotheses: a two-thread interleaving with a hit, a blocked writer and a miss *)
Example C13_nonvacuous :
  let tr := [Acquire 1; Body 1 "get_internal"; Return 1 true; HandleRelease 1; Acquire 2; Body 2 "insert_internal"; Release 2;
             Return 2 false; Acquire 1; Body 1 "get_internal"; Release 1; Return 1 false]%string in
  mutex_ok None tr = true /\ thread_wf 1 (thread_events 1 tr) = true /\ thread_wf 2 (thread_events 2 tr) = true.
Proof. vm_compute. repeat split. Qed.

(** the validator used on recorded histories is sound *)
Theorem C13_lin_validator_sound : forall init h order,
  lin_ok init h order = true ->
  exists l, Permutation l h /\ rt_ok l = true /\ seq_legal init l = true.
Proof. exact lin_ok_sound. Qed.
Print Assumptions C13_lin_validator_sound.
