(** C02 — scans visit exactly the entries of the requested interval, in key
    order, and stop as soon as the visitor returns true. *)
From Coq Require Import List ZArith Bool Sorted Lia.
From Unodb Require Import Base.Lex Art.ArtModel Art.ArtIter Art.ArtSpec Art.ArtInv Art.ArtScanSpec Art.ArtIterProofs.
Import ListNotations.
Local Open Scope Z_scope.

(** the in-order leaf list of a well-formed tree is strictly ascending in the
    byte-wise order of the keys *)
Theorem C02_leaves_sorted : forall L d, db_WF L d -> StronglySorted entries_lt (db_leaves d).
Proof. exact db_leaves_sorted. Qed.
Print Assumptions C02_leaves_sorted.

Theorem C02_scan : forall L d h, (1 <= L <= 8)%nat -> db_WF L d ->
  db_scan d true h = Ok (take_until h (kvs (db_leaves d))) /\
  db_scan d false h = Ok (take_until h (rev (kvs (db_leaves d)))).
Proof. exact db_scan_correct. Qed.
Print Assumptions C02_scan.

Theorem C02_scan_from : forall L d k h, (1 <= L <= 8)%nat -> db_WF L d -> key_ok L k ->
  db_scan_from d k true h = Ok (take_until h (kvs (filter (ge_key k) (db_leaves d)))) /\
  db_scan_from d k false h = Ok (take_until h (rev (kvs (filter (le_key k) (db_leaves d))))).
Proof. exact db_scan_from_correct. Qed.
Print Assumptions C02_scan_from.

Theorem C02_scan_range : forall L d a b h, (1 <= L <= 8)%nat -> db_WF L d -> key_ok L a -> key_ok L b ->
  db_scan_range d a b h =
  Ok (match lex_compare a b with
      | Eq => []
      | Lt => take_until h (kvs (filter (in_fwd_range a b) (db_leaves d)))
      | Gt => take_until h (rev (kvs (filter (in_rev_range a b) (db_leaves d))))
      end).
Proof. exact db_scan_range_correct. Qed.
Print Assumptions C02_scan_range.

(** The seek of the pinned tree (before "fix: seek must resume at the parent's
    sibling") is refuted: keys {0,1,256}, scan_from(5) forward. *)
Theorem C02_pinned_seek_refuted : exists d k,
  db_WF 8 d /\ key_ok 8 k /\
  db_scan_from_pinned d k true <> Ok (kvs (filter (ge_key k) (db_leaves d))).
Proof. exact pinned_seek_refuted. Qed.
Print Assumptions C02_pinned_seek_refuted.
