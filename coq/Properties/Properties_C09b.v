(** C09, second part: the recorded scans of the implementation are instances
    of the abstract scan.  [lin_ok] (C03_lin_validator_sound) yields a legal,
    real-time respecting sequence of all calls of an execution, scan queries
    included; these theorems turn the queries of one scan into [scan_fwd]. *)
From Coq Require Import List ZArith Bool.
From Unodb Require Import Base.Lex Lin.LinCheck Olc.ScanSpec Lin.LinScan Lin.LinScanProofs.
Import ListNotations.
Local Open Scope Z_scope.

(** real-time order puts the queries of a scan at increasing positions
    (two distinct calls: [rt_ok] says nothing about a call against itself,
    and nothing here forces c_inv <= c_ret, so i <> j is needed) *)
Theorem C09_chain_positions : forall l i j c d,
  rt_ok l = true -> nth_error l i = Some c -> nth_error l j = Some d -> i <> j ->
  (c_ret c < c_inv d)%nat -> (i < j)%nat.
Proof. exact rt_positions. Qed.
Print Assumptions C09_chain_positions.

(** the chain of queries of a forward scan is an abstract scan over the maps of the sequence *)
Theorem C09_chain_is_scan : forall f init l p b s ds,
  seq_legal init l = true -> chain l p b s ds ->
  scan_fwd (H_of f init l) p (nonstrict_bound b s) (deliveries f ds).
Proof. exact chain_scan_fwd. Qed.
Print Assumptions C09_chain_is_scan.

(** a final query that finds nothing: the scan is exhausted at that moment *)
Theorem C09_chain_exhausted : forall f init l i c b s,
  seq_legal init l = true -> nth_error l i = Some c -> is_query c b s None ->
  exhausted (H_of f init l) i (nonstrict_bound b s).
Proof. exact chain_exhausted. Qed.
Print Assumptions C09_chain_exhausted.

(** non-vacuity: a legal sequence with an insert racing a two-delivery scan *)
Example C09_chain_nonvacuous :
  let q1 := {| c_op := LNext [0] false None; c_res := LEntry (Some ([3], [30])); c_inv := 0; c_ret := 1 |} in
  let i5 := {| c_op := LInsert [5] [50]; c_res := LBool true; c_inv := 0; c_ret := 4 |} in
  let q2 := {| c_op := LNext [3] true None; c_res := LEntry (Some ([5], [50])); c_inv := 2; c_ret := 5 |} in
  let q3 := {| c_op := LNext [5] true None; c_res := LEntry None; c_inv := 6; c_ret := 7 |} in
  seq_legal [([3], [30])] [q1; i5; q2; q3] = true /\ rt_ok [q1; i5; q2; q3] = true /\
  chain [q1; i5; q2; q3] 0 0 false [(0%nat, 3, [30]); (2%nat, 5, [50])].
Proof.
  cbv zeta. split; [vm_compute; reflexivity|]. split; [vm_compute; reflexivity|].
  eapply ch_cons with (i := 0%nat); [apply le_n|reflexivity|split; reflexivity|].
  eapply ch_cons with (i := 2%nat); [repeat constructor|reflexivity|split; reflexivity|].
  apply ch_nil.
Qed.
