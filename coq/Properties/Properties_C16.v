(** C16 — results independent of build configuration (Coq part). *)
From Coq Require Import List ZArith Bool.
From Unodb Require Import Base.Lex Art.ArtModel Art.ArtIter Art.ArtSpec Art.ArtVariants.
Import ListNotations.
Local Open Scope Z_scope.

(** SIMD child search (cmpeq / movemask / countr_zero) = list-level find_child *)
Theorem C16_find_child_simd : forall ch b i0,
  option_map (fun i => (i + i0)%nat) (find_child_simd ch b) = option_map fst (find_child ch b i0).
Proof. exact find_child_simd_eq. Qed.
Print Assumptions C16_find_child_simd.

Theorem C16_insert_pos4_simd : forall ch b, insert_pos4_simd ch b = insert_pos C4 ch b.
Proof. exact insert_pos4_simd_eq. Qed.
Print Assumptions C16_insert_pos4_simd.

Theorem C16_insert_pos16_simd : forall ch b, insert_pos16_simd ch b = insert_pos C16 ch b.
Proof. exact insert_pos16_simd_eq. Qed.
Print Assumptions C16_insert_pos16_simd.

(** SSE (pairs), AVX2 (quadruples) and scalar free-slot searches of N48 agree *)
Theorem C16_free_slot : forall slots, (length slots <= 48)%nat ->
  first_free_grouped 24 2 slots 0 = first_free slots /\
  first_free_grouped 12 4 slots 0 = first_free slots /\
  first_free_grouped 48 1 slots 0 = first_free slots.
Proof. exact free_slot_variants_agree. Qed.
Print Assumptions C16_free_slot.

(** statistics compiled in or out: same results *)
Theorem C16_stats_obs : forall sz1 sz2 ops, run sz1 db0 ops = run sz2 db0 ops.
Proof. exact run_stats_obs. Qed.
Print Assumptions C16_stats_obs.
