(** C06, the three-round bound: a request pending anywhere is executed no
    later than the end of the third consecutive round in which every
    registered thread passes through a quiescent state (or leaves).

    The statement was tested against the model before it was proved (exhaustive
    exploration of the extracted model for two and three thread objects, and
    the [Example]s below): it holds as stated.  In particular no "some thread
    stays registered" hypothesis is needed, because the last thread to
    unregister runs in single-thread mode and executes everything, orphans
    included, so a reachable state without registered threads has nothing
    pending.  The examples record that the bound is tight and which of the
    premises are really used. *)
From Coq Require Import List ZArith Bool.
From Unodb Require Import Qsbr.QsbrModel Qsbr.QsbrProofs Qsbr.QsbrRounds.
Import ListNotations.
Local Open Scope Z_scope.

(** a round from state s: no thread registers during it, and every thread
    registered in s announces a quiescent state or unregisters (threads may
    also retire further pointers) *)
Definition is_round (s : qstate) (r : list qop) : Prop :=
  (forall o, In o r -> match o with QRegister _ => False | _ => True end) /\
  (forall t, t_reg (get_thr s t) = true -> In (QQuiescent t) r \/ In (QUnregister t) r).

Theorem C06_three_rounds : forall n pre s fs bads r1 r2 r3 s1 f1 b1 s2 f2 b2 s3 f3 b3 p,
  qrun (qinit n) pre = Some (s, fs, bads) ->
  qrun s r1 = Some (s1, f1, b1) -> is_round s r1 ->
  qrun s1 r2 = Some (s2, f2, b2) -> is_round s1 r2 ->
  qrun s2 r3 = Some (s3, f3, b3) -> is_round s2 r3 ->
  In p (pending s) -> In p (concat (f1 ++ f2 ++ f3)).
Proof. exact three_rounds. Qed.
Print Assumptions C06_three_rounds.

(** * Machine-checked witnesses *)

(** every registered thread of a concrete two-thread state passes in [r] *)
Ltac all_pass :=
  let t := fresh "t" in let H := fresh "H" in
  intros t H; destruct t as [|[|t]];
  [ vm_compute in H; first [discriminate H | vm_compute; tauto]
  | vm_compute in H; first [discriminate H | vm_compute; tauto]
  | exfalso; destruct t; vm_compute in H; discriminate H ].

Ltac no_register :=
  let o := fresh "o" in let H := fresh "H" in
  intros o H; cbn [In] in H;
  repeat (destruct H as [<-|H]; [exact I|]); destruct H.

Ltac round_ok := split; [no_register|all_pass].

Ltac not_freed := vm_compute; intuition discriminate.

(** Two rounds are not enough: thread 0 retires [7], then both threads
    announce a quiescent state twice; [7] is still queued (in thread 0's
    previous-interval list) and is executed only in the third round. *)
Example C06_two_rounds_not_enough :
  exists n pre s fs bads r1 r2 s1 f1 b1 s2 f2 b2 p,
    qrun (qinit n) pre = Some (s, fs, bads) /\
    qrun s r1 = Some (s1, f1, b1) /\ is_round s r1 /\
    qrun s1 r2 = Some (s2, f2, b2) /\ is_round s1 r2 /\
    In p (pending s) /\ ~ In p (concat (f1 ++ f2)) /\ In p (pending s2).
Proof.
  exists 2%nat, [QRegister 0%nat; QRegister 1%nat; QRetire 0%nat 7].
  eexists. eexists. eexists.
  exists [QQuiescent 0%nat; QQuiescent 1%nat], [QQuiescent 0%nat; QQuiescent 1%nat].
  eexists. eexists. eexists. eexists. eexists. eexists. exists 7.
  split; [vm_compute; reflexivity|].
  split; [vm_compute; reflexivity|].
  split; [round_ok|].
  split; [vm_compute; reflexivity|].
  split; [round_ok|].
  split; [vm_compute; tauto|].
  split; [not_freed|vm_compute; tauto].
Qed.

(** ... and the same history with a third round executes it. *)
Example C06_third_round_frees :
  match qrun (qinit 2) ([QRegister 0%nat; QRegister 1%nat; QRetire 0%nat 7] ++
                        [QQuiescent 0%nat; QQuiescent 1%nat] ++ [QQuiescent 0%nat; QQuiescent 1%nat] ++
                        [QQuiescent 0%nat; QQuiescent 1%nat]) with
  | Some (s, fs, _) => pending s = [] /\ concat fs = [7]
  | None => False
  end.
Proof. vm_compute. split; reflexivity. Qed.

(** All threads leave in the first round (the situation in which rounds two
    and three are vacuous): the last unregister executes the orphaned
    requests, nothing stays pending. *)
Example C06_all_leave_in_round_one :
  match qrun (qinit 2) ([QRegister 0%nat; QRegister 1%nat; QRetire 0%nat 7; QRetire 1%nat 8] ++
                        [QUnregister 0%nat; QUnregister 1%nat]) with
  | Some (s, fs, _) => q_T s = 0 /\ pending s = [] /\ concat fs = [7; 8]
  | None => False
  end.
Proof. vm_compute. repeat split; reflexivity. Qed.

(** The "no QRegister during a round" clause of [is_round] is needed: if the
    population is handed over (one thread leaves, the other re-registers,
    alternately) every thread registered at the start of each round passes,
    yet the epoch advances only twice and [7] is still queued after three
    such rounds. *)
Definition passes_only (s : qstate) (r : list qop) : Prop :=
  forall t, t_reg (get_thr s t) = true -> In (QQuiescent t) r \/ In (QUnregister t) r.

Example C06_three_rounds_needs_no_register :
  exists n pre s fs bads r1 r2 r3 s1 f1 b1 s2 f2 b2 s3 f3 b3 p,
    qrun (qinit n) pre = Some (s, fs, bads) /\
    qrun s r1 = Some (s1, f1, b1) /\ passes_only s r1 /\
    qrun s1 r2 = Some (s2, f2, b2) /\ passes_only s1 r2 /\
    qrun s2 r3 = Some (s3, f3, b3) /\ passes_only s2 r3 /\
    In p (pending s) /\ ~ In p (concat (f1 ++ f2 ++ f3)).
Proof.
  exists 2%nat, [QRegister 0%nat; QRegister 1%nat; QRetire 0%nat 7].
  eexists. eexists. eexists.
  exists [QUnregister 0%nat; QRegister 0%nat; QQuiescent 0%nat; QUnregister 1%nat],
         [QRegister 1%nat; QUnregister 0%nat], [QRegister 0%nat; QUnregister 1%nat].
  eexists. eexists. eexists. eexists. eexists. eexists. eexists. eexists. eexists. exists 7.
  split; [vm_compute; reflexivity|].
  split; [vm_compute; reflexivity|].
  split; [all_pass|].
  split; [vm_compute; reflexivity|].
  split; [all_pass|].
  split; [vm_compute; reflexivity|].
  split; [all_pass|].
  split; [vm_compute; tauto|not_freed].
Qed.

(** Reachability of [s] is needed: in a (non-reachable) state without
    registered threads but with an orphaned request every history without
    QRegister is a round, and nothing is ever executed. *)
Example C06_three_rounds_needs_reachable :
  exists s r1 r2 r3 s1 f1 b1 s2 f2 b2 s3 f3 b3 p,
    qrun s r1 = Some (s1, f1, b1) /\ is_round s r1 /\
    qrun s1 r2 = Some (s2, f2, b2) /\ is_round s1 r2 /\
    qrun s2 r3 = Some (s3, f3, b3) /\ is_round s2 r3 /\
    In p (pending s) /\ ~ In p (concat (f1 ++ f2 ++ f3)).
Proof.
  exists {| q_ep := 0; q_T := 0; q_P := 0; q_oprev := [[7]]; q_ocur := []; q_thr := [thr0; thr0];
            q_gep := 0; q_wait := [] |}.
  exists [], [], [].
  eexists. eexists. eexists. eexists. eexists. eexists. eexists. eexists. eexists. exists 7.
  split; [vm_compute; reflexivity|].
  split; [round_ok|].
  split; [vm_compute; reflexivity|].
  split; [round_ok|].
  split; [vm_compute; reflexivity|].
  split; [round_ok|].
  split; [vm_compute; tauto|not_freed].
Qed.

Print Assumptions C06_two_rounds_not_enough.
Print Assumptions C06_third_round_frees.
Print Assumptions C06_all_leave_in_round_one.
Print Assumptions C06_three_rounds_needs_no_register.
Print Assumptions C06_three_rounds_needs_reachable.
