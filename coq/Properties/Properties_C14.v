(** C14 — OLC operations never deadlock or leave a node locked (Coq part:
    the trace-level facts; the decision on the code is the deterministic
    schedule exploration with deadlock / livelock detection and the
    post-execution sweep). *)
From Coq Require Import List ZArith Bool.
From Unodb Require Import Lock.LockModel Lock.LockProofs Olc.OlcTrace Olc.OlcProofs.
Import ListNotations.
Local Open Scope Z_scope.

(** In every accepted trace a thread that holds a write guard cannot perform
    a waiting step: waiting happens only in try_read_lock by threads holding
    nothing.  Hence whenever some thread waits on a write-locked node, that
    node's holder (it exists and is unique: C07_exclusive per node) is not
    waiting, so no set of threads can wait on one another forever. *)
Theorem C14_no_wait_while_holding : forall inits tr t b,
  olc_trace_ok inits tr = true -> holds_any (held_after [] tr) t = true ->
  olc_trace_ok inits (tr ++ [(b, ESpin t)]) = false.
Proof. exact holder_never_waits. Qed.
Print Assumptions C14_no_wait_while_holding.

(** per node: at most one write guard, and exactly when the write bit is set *)
Theorem C14_one_holder_per_node : forall n tr s, lrun (linit n) tr = Some s ->
  (length (guards s) <= 1)%nat /\ (guards s <> [] <-> w_is_write_locked (lw s) = true).
Proof. exact exclusive. Qed.
Print Assumptions C14_one_holder_per_node.

Example C14_nonvacuous :
  olc_trace_ok [(1%nat, linit 1)]
    [(1%nat, ERLock 1%nat 0); (1%nat, EUpgrade 1%nat 0 true); (1%nat, ERLock 2%nat 2); (1%nat, ESpin 2%nat);
     (1%nat, EStore 1%nat O 5); (1%nat, EWUnlock 1%nat 4); (1%nat, ERLock 2%nat 4)] = true.
Proof. vm_compute. reflexivity. Qed.
