(** C08b — the ORDER of allocation, accounting and publication in the real
    insert / remove code.  [gen_fault_table] (coq/Gen/GenFaultShape.v) is
    regenerated on every check by tools/fault2v.py from clang's AST of the
    instantiated db<uint64_t, value_view>::insert_internal / remove_internal
    and everything they call that has an effect; the theorems hold for every
    table accepted by the boolean predicate, the generated one is discharged
    by computation. *)
From Coq Require Import List ZArith Bool String.
From Unodb Require Import Art.ArtModel Art.ArtFault Art.FaultShape Art.FaultShapeProofs Gen.GenFaultShape Art.FaultShapeInst.
Import ListNotations.
Local Open Scope string_scope.

(** the regenerated effect shapes and deleters satisfy the shape predicate *)
Theorem C08b_shapes : table_safe gen_fault_table = true.
Proof. vm_compute. reflexivity. Qed.
Print Assumptions C08b_shapes.

(** For every accepted table, every operation of it, every path through its effect shape, every choice
    of the allocation that throws ([fail] = 1, 2, ...; also the length check's throw) and every initial
    state without pending owning pointers: an exception reaches the caller (no noexcept frame turns it
    into std::terminate) and, after the stack has been unwound by the deleters, the store count, every
    statistics counter and the number of blocks held per kind are what they were before the call and no
    owning pointer is left; a path that goes round the descent loop arrives there in the initial state
    (so cutting the loop after one iteration loses nothing). *)
Theorem C08b_strong : forall t, table_safe t = true ->
  forall name sh, In (name, sh) (ft_ops t) ->
  forall p, In p (paths sh) -> forall fail s0, st_live s0 = [] ->
    (forall s', run fail 0 p s0 = Raised s' -> s' = s0) /\
    run fail 0 p s0 <> Terminated /\
    (forall s', run fail 0 p s0 = Completed s' -> last p TReturn = TLoop -> s' = s0).
Proof.
  exact (fun t Ht name sh Hin => fault_safe_strong sh (table_safe_ops t Ht name sh Hin)).
Qed.
Print Assumptions C08b_strong.

(** non-vacuity: the leaf-split path of the regenerated insert shape has two allocations; failing the
    second one raises, and the unwound state is the (arbitrary-looking) initial state *)
Definition c08b_s0 : state := mkst 7 [3; 1; 0; 0; 0; 1; 0; 0; 0; 0; 0; 0; 0; 0; 0; 0]%Z [3; 1; 0; 0; 0]%Z [].
Definition c08b_split_path : list token :=
  [TAlloc KLeaf; TStat (SCount KLeaf) 1; TGuard KLeaf; TAlloc KI4; TStat (SCount KI4) 1;
   TEnterNoexcept "ctor basic_inode_4"; TEnterNoexcept "init"; TEnterNoexcept "add_two_to_empty";
   TRelease KLeaf; TLeaveNoexcept; TLeaveNoexcept; TLeaveNoexcept; TGuard KI4; TRelease KI4;
   TPublish "node"; TStat (SGrow KI4) 1; TReturn].
Example C08b_strong_nonvacuous :
  In c08b_split_path (paths (find_op (ft_ops gen_fault_table) "insert_internal")) /\
  In ("insert_internal", find_op (ft_ops gen_fault_table) "insert_internal") (ft_ops gen_fault_table) /\
  run 2 0 c08b_split_path c08b_s0 = Raised c08b_s0 /\
  run 1 0 c08b_split_path c08b_s0 = Raised c08b_s0 /\
  run 0 0 c08b_split_path c08b_s0 =
    Completed (mkst 8 [4; 2; 0; 0; 0; 1; 1; 0; 0; 0; 0; 0; 0; 0; 0; 0]%Z [4; 2; 0; 0; 0]%Z []).
Proof.
  split; [|split; [|split; [|split]]]; try (vm_compute; reflexivity).
  - vm_compute. tauto.
  - vm_compute. tauto.
Qed.

(** on every path of an accepted shape nothing that can throw follows the first store into the existing
    tree, free, release() or adoption of an existing block *)
Theorem C08b_no_alloc_after_publish : forall t, table_safe t = true ->
  forall name sh, In (name, sh) (ft_ops t) ->
  forall p, In p (paths sh) -> forall a tk b, p = (a ++ tk :: b)%list -> visible tk = true ->
  forall t', In t' b -> throwing t' = false.
Proof.
  exact (fun t Ht name sh Hin => no_throw_after_visible sh (table_safe_ops t Ht name sh Hin)).
Qed.
Print Assumptions C08b_no_alloc_after_publish.

(** the deleters found in the source do exactly what the unwinding of the semantics does *)
Theorem C08b_deleters : forall t, table_safe t = true ->
  forall e, In e (ft_deleters t) -> forall p st hp lv,
  run_tokens (snd e) (mkst p st hp (fst e :: lv)) = undo (fst e) (mkst p st hp (fst e :: lv)).
Proof.
  exact (fun t Ht e Hin => deleter_is_undo e (table_safe_deleters t Ht e Hin)).
Qed.
Print Assumptions C08b_deleters.

(** allocation points per operation: the longest path of the regenerated insert shape allocates twice,
    of the remove shape once - the bounds of [ev_allocs] in the allocate-then-commit model
    (Art/ArtFault.v), which are attained (leaf split: 2, shrink of an N16: 1) *)
Theorem C08b_alloc_counts :
  max_allocs (find_op (ft_ops gen_fault_table) "insert_internal") = 2%nat /\
  max_allocs (find_op (ft_ops gen_fault_table) "remove_internal") = 1%nat /\
  (forall e, (ev_allocs e <= max_allocs (find_op (ft_ops gen_fault_table) "insert_internal"))%nat) /\
  (forall c, (ev_allocs (EShrink c) <= max_allocs (find_op (ft_ops gen_fault_table) "remove_internal"))%nat) /\
  ev_allocs ELeafSplit = 2%nat /\ ev_allocs (EShrink C16) = 1%nat /\
  (forall name sh, In (name, sh) (ft_ops gen_fault_table) ->
     forall p, In p (paths sh) -> (count_allocs p <= max_allocs sh)%nat).
Proof. exact gen_alloc_counts. Qed.
Print Assumptions C08b_alloc_counts.

(** an UNSAFE shape (the inode count bumped before the inode is allocated, nothing owning it yet): the
    predicate rejects it, and the conclusion of [C08b_strong] fails on it - when the allocation throws the
    counter stays bumped *)
Definition c08b_unsafe : shape :=
  Tok (TStat (SCount KI4) 1) (Tok (TAlloc KI4) (Tok (TGuard KI4) (Tok (TRelease KI4) (Tok (TPublish "node") (Tok TReturn Stop))))).
Example C08b_unsafe_rejected :
  fault_safe c08b_unsafe = false /\
  exists p s', In p (paths c08b_unsafe) /\ run 1 0 p c08b_s0 = Raised s' /\ s' <> c08b_s0.
Proof.
  split; [vm_compute; reflexivity|].
  eexists. eexists. split; [left; reflexivity|]. split; [vm_compute; reflexivity|]. discriminate.
Qed.

(** a store into the tree before the second allocation, and an allocation inside a noexcept frame, are
    rejected as well (the second one ends in std::terminate) *)
Example C08b_unsafe_publish_first :
  fault_safe (Tok (TAlloc KLeaf) (Tok (TStat (SCount KLeaf) 1) (Tok (TGuard KLeaf) (Tok (TPublish "node")
               (Tok (TAlloc KI4) (Tok TReturn Stop)))))) = false /\
  fault_safe (Tok (TEnterNoexcept "f") (Tok (TAlloc KLeaf) (Tok TLeaveNoexcept (Tok TReturn Stop)))) = false /\
  run 1 0 [TEnterNoexcept "f"; TAlloc KLeaf; TLeaveNoexcept; TReturn] c08b_s0 = Terminated.
Proof. repeat split; vm_compute; reflexivity. Qed.
