(** C04 — no use of reclaimed memory; OLC reads stay valid until the reader
    quiesces (Coq part: what QSBR guarantees to the index, at operation
    level; use-after-free of nodes on the code is decided by the schedule
    exploration with the freed-node detector). *)
From Coq Require Import List ZArith Bool.
From Unodb Require Import Qsbr.QsbrModel Qsbr.QsbrProofs Qsbr.QsbrViews.
Import ListNotations.
Local Open Scope Z_scope.

(** A block retired by thread t (the unlinking writer) while thread u <> t is
    registered -- so u may hold a pointer into it, e.g. the value bytes
    returned by a get or shown to a scan visitor -- is not freed by any later
    call before u itself has entered a quiescent state or paused / exited:
    if the history up to and including the freeing call contains no
    QQuiescent u / QUnregister u after the retire, the block is not in any
    of the free lists of those calls. *)
Theorem C04_view_stable : forall n pre t p mid s fs bads u,
  qrun (qinit n) (pre ++ QRetire t p :: mid) = Some (s, fs, bads) ->
  NoDup (retired_ptrs (pre ++ QRetire t p :: mid)) ->
  u <> t -> registered_after n pre u = true ->
  ~ In (QQuiescent u) mid -> ~ In (QUnregister u) mid ->
  ~ In p (concat (skipn (length pre) fs)).
Proof. exact view_stable. Qed.
Print Assumptions C04_view_stable.

(** every retired block is eventually in exactly one place: pending or freed once *)
Theorem C04_unlinked_freed_once : forall n ops s fs bads,
  qrun (qinit n) ops = Some (s, fs, bads) -> NoDup (retired_ptrs ops) ->
  NoDup (concat fs) /\ forall p, In p (concat fs) -> In p (retired_ptrs ops) /\ ~ In p (pending s).
Proof. exact freed_once. Qed.
Print Assumptions C04_unlinked_freed_once.
