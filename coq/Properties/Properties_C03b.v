(** C03, reader side: the lock-coupling descent of try_get is linearizable
    relative to the lock discipline (C07) and the writers' rely conditions W1
    (unlinked nodes are marked obsolete) and W2 (path ++ prefix of an inner
    node is invariant).  See Olc/ReadModel.v. *)
From Coq Require Import List ZArith Bool Arith Lia.
From Unodb Require Import Lock.LockModel Olc.ReadModel Olc.ReadProofs.
Import ListNotations.
Local Open Scope Z_scope.

(** every node of a valid run is in the tree with the word and content the
    reader saw, at every moment of its section.  It is on the search path of
    the key (reached after exactly the key bytes the reader had consumed) at
    the moment it was locked; an inner node stays on that path at every moment
    of its section -- in particular at any moment at which a writer that
    upgraded these sections holds their write guards (the writer's view of
    parent, node and child is accurate when it commits).  A leaf keeps its
    content but not necessarily its path: W2 speaks about inner nodes only,
    and a split of the leaf's slot puts a new inner node above the unchanged
    leaf (C03_leaf_path_may_change below). *)
Theorem C03_hops_on_path : forall H k rn r,
  disciplined H -> stays_reachable H -> fullpath_stable H -> valid_run H k rn r ->
  forall a d, In (a, d) (hop_depths 0 (r_hops rn)) ->
  forall t, (h_lock a <= t <= h_check a)%nat ->
    ((t = h_lock a \/ exists p cs, h_cont a = CInode p cs) -> reach (H t) (h_node a) (firstn d k)) /\
    (exists pth, reach (H t) (h_node a) pth) /\
    exists c, hp (H t) (h_node a) = Some c /\ word c = h_word a /\ cont c = h_cont a.
Proof. exact hops_on_path. Qed.
Print Assumptions C03_hops_on_path.

(** the result of a completed try_get is the result of a lookup in the tree
    as it is at one moment between the reader's first and last step *)
Theorem C03_reader_linearizable : forall H k rn r,
  disciplined H -> stays_reachable H -> fullpath_stable H -> valid_run H k rn r ->
  exists T, (r_lock rn <= T <= last_moment rn)%nat /\ lookup (H T) k r.
Proof. exact reader_linearizable. Qed.
Print Assumptions C03_reader_linearizable.

(** lookup is a function of the heap: the linearization point determines the result *)
Theorem C03_lookup_deterministic : forall g k r1 r2, lookup g k r1 -> lookup g k r2 -> r1 = r2.
Proof. exact lookup_deterministic. Qed.
Print Assumptions C03_lookup_deterministic.

(** ** Concrete histories *)

(** the parent cell of a reach_child step in a concrete heap: enumerate the
    nodes, keep the inner ones, decide the byte comparisons *)
Ltac parent_cases n Hc Hk Hf :=
  do 6 (try destruct n as [|n]); cbn in Hc; try discriminate Hc;
  injection Hc as Hc; rewrite <- Hc in Hk; cbn in Hk; try discriminate Hk;
  injection Hk as ? ?; subst; cbn in Hf;
  repeat match type of Hf with
         | context [Z.eqb ?x ?y] => destruct (Z.eqb_spec x y); subst
         end;
  try discriminate Hf; try (injection Hf as Hf).

(** *** Non-vacuity: a three-hop run across an unrelated insert

    root inner node 0 (prefix [7]) with the inner child 1 under byte 1 and the
    leaf 2 under byte 2; node 1 has the leaf 3 under byte 5.  From moment 3 on
    a writer has added the leaf 4 under byte 3 of node 0 (bumping node 0's
    word from 0 to 4).  The reader looks up [7;1;5]; its sections of node 1
    and of the leaf span the writer's step. *)
Definition nv_leaf2 := {| word := 0; cont := CLeaf [7;2] [20] |}.
Definition nv_leaf3 := {| word := 0; cont := CLeaf [7;1;5] [15] |}.
Definition nv_leaf4 := {| word := 0; cont := CLeaf [7;3] [30] |}.
Definition nv_node1 := {| word := 0; cont := CInode [] [(5, 3%nat)] |}.
Definition nv_cs0 : list (Z * nid) := [(1, 1%nat); (2, 2%nat)].
Definition nv_cs1 : list (Z * nid) := [(1, 1%nat); (2, 2%nat); (3, 4%nat)].

Definition nv_g0 : gstate :=
  {| hp := fun n => match n with
                    | 0%nat => Some {| word := 0; cont := CInode [7] nv_cs0 |}
                    | 1%nat => Some nv_node1
                    | 2%nat => Some nv_leaf2
                    | 3%nat => Some nv_leaf3
                    | _ => None
                    end;
     root_word := 0; root := Some 0%nat |}.

Definition nv_g1 : gstate :=
  {| hp := fun n => match n with
                    | 0%nat => Some {| word := 4; cont := CInode [7] nv_cs1 |}
                    | 1%nat => Some nv_node1
                    | 2%nat => Some nv_leaf2
                    | 3%nat => Some nv_leaf3
                    | 4%nat => Some nv_leaf4
                    | _ => None
                    end;
     root_word := 0; root := Some 0%nat |}.

Definition nv_H : history := fun t => if (t <? 3)%nat then nv_g0 else nv_g1.

Definition nv_key : key := [7;1;5].
Definition nv_run : run :=
  {| r_lock := 0%nat; r_word := 0; r_check := 0%nat; r_ptr := Some 0%nat;
     r_hops := [ {| h_node := 0%nat; h_lock := 0%nat; h_check := 1%nat; h_word := 0; h_cont := CInode [7] nv_cs0 |};
                 {| h_node := 1%nat; h_lock := 1%nat; h_check := 4%nat; h_word := 0; h_cont := CInode [] [(5, 3%nat)] |};
                 {| h_node := 3%nat; h_lock := 2%nat; h_check := 5%nat; h_word := 0; h_cont := CLeaf [7;1;5] [15] |} ] |}.

Lemma nv_disciplined : disciplined nv_H.
Proof.
  split.
  - intros n t1 t2 c1 c2 Hle H1 H2 Hw Hf t Ht. unfold nv_H in *.
    destruct (Nat.ltb_spec t1 3), (Nat.ltb_spec t2 3), (Nat.ltb_spec t 3); try lia; try assumption;
      do 6 (try destruct n as [|n]); cbn in H1, H2 |- *; try discriminate H1;
      injection H1 as <-; injection H2 as <-; cbn in Hw; try discriminate Hw; reflexivity.
  - intros t1 t2 Hle Hw Hf t Ht. unfold nv_H.
    destruct (t1 <? 3)%nat, (t <? 3)%nat; reflexivity.
Qed.

Lemma nv_reach_mono : forall n pth, reach nv_g0 n pth -> exists pth', reach nv_g1 n pth'.
Proof.
  intros n pth Hr.
  induction Hr as [n Hroot | n pth c p cs b c' Hr [pth' IH] Hc Hk Hf].
  - exists []. apply reach_root. exact Hroot.
  - do 6 (try destruct n as [|n]); cbn in Hc; try discriminate Hc;
      injection Hc as Hc; rewrite <- Hc in Hk; cbn in Hk; try discriminate Hk;
      injection Hk as <- <-; eexists;
      (eapply reach_child with (b := b); [exact IH | reflexivity | reflexivity | ]);
      revert Hf; cbn;
      repeat match goal with |- context [Z.eqb ?x ?y] => destruct (Z.eqb x y) end;
      intros; congruence.
Qed.

Lemma nv_stays_reachable : stays_reachable nv_H.
Proof.
  intros t t' n pth Hle Hr _. unfold nv_H in *.
  destruct (Nat.ltb_spec t 3), (Nat.ltb_spec t' 3); try lia; eauto.
  eapply nv_reach_mono; eassumption.
Qed.

Lemma nv_reach0 : forall g, g = nv_g0 \/ g = nv_g1 -> forall pth, reach g 0%nat pth -> pth = [].
Proof.
  intros g Hg pth Hr. inversion Hr as [n Hroot | n pth0 c p cs b c' Hr0 Hc Hk Hf]; [reflexivity|].
  exfalso. destruct Hg; subst g; parent_cases n Hc Hk Hf; discriminate.
Qed.

Lemma nv_reach1 : forall g, g = nv_g0 \/ g = nv_g1 -> forall pth, reach g 1%nat pth -> pth = [7;1].
Proof.
  intros g Hg pth Hr. inversion Hr as [n Hroot | n pth0 c p cs b c' Hr0 Hc Hk Hf].
  - exfalso. destruct Hg; subst g; cbn in Hroot; discriminate.
  - destruct Hg as [Hg|Hg]; pose proof (nv_reach0 g (or_introl Hg)) as R0 || pose proof (nv_reach0 g (or_intror Hg)) as R0;
      subst g; parent_cases n Hc Hk Hf; try discriminate;
      rewrite (R0 _ Hr0); reflexivity.
Qed.

Lemma nv_fullpath_stable : fullpath_stable nv_H.
Proof.
  exists (fun n => match n with 0%nat => [7] | _ => [7;1] end).
  intros t n pth c p cs Hr Hc Hk.
  assert (Hg : nv_H t = nv_g0 \/ nv_H t = nv_g1).
  { unfold nv_H. destruct (t <? 3)%nat; auto. }
  pose proof (nv_reach0 _ Hg) as R0. pose proof (nv_reach1 _ Hg) as R1.
  destruct Hg as [Hg|Hg]; rewrite Hg in *;
    do 6 (try destruct n as [|n]); cbn in Hc; try discriminate Hc;
    injection Hc as Hc; rewrite <- Hc in Hk; cbn in Hk; try discriminate Hk;
    injection Hk as <- <-;
    (rewrite (R0 _ Hr) || rewrite (R1 _ Hr)); reflexivity.
Qed.

Lemma nv_valid_run : valid_run nv_H nv_key nv_run (Some [15]).
Proof.
  unfold valid_run. cbn [r_lock r_check r_word r_ptr r_hops nv_run].
  repeat split; try reflexivity; try lia.
  eexists _, _. split; [reflexivity|]. split; [reflexivity|].
  eapply ho_step with (p := [7]) (cs := nv_cs0).
  - unfold hop_observed. cbn. repeat split; try lia; eexists; repeat split; reflexivity.
  - cbn. lia.
  - reflexivity.
  - reflexivity.
  - reflexivity.
  - eapply ho_step with (p := []) (cs := [(5, 3%nat)]).
    + unfold hop_observed. cbn. repeat split; try lia; eexists; repeat split; reflexivity.
    + cbn. lia.
    + reflexivity.
    + reflexivity.
    + reflexivity.
    + eapply ho_last.
      * unfold hop_observed. cbn. repeat split; try lia; eexists; repeat split; reflexivity.
      * cbn. lia.
      * cbn. apply st_hit.
Qed.

(** the hypotheses of the C03 reader theorems are satisfiable by a history
    with a concurrent writer, and a run with a hit exists in it *)
Example C03_reader_nonvacuous : exists H k rn r,
  disciplined H /\ stays_reachable H /\ fullpath_stable H /\ valid_run H k rn r /\ r <> None.
Proof.
  exists nv_H, nv_key, nv_run, (Some [15]).
  split; [exact nv_disciplined|]. split; [exact nv_stays_reachable|]. split; [exact nv_fullpath_stable|].
  split; [exact nv_valid_run | discriminate].
Qed.
Print Assumptions C03_reader_nonvacuous.

(** in that history the reader's linearization point exists between moments 0 and 5 *)
Example C03_reader_nonvacuous_lin : exists T, (0 <= T <= 5)%nat /\ lookup (nv_H T) nv_key (Some [15]).
Proof.
  exact (C03_reader_linearizable nv_H nv_key nv_run (Some [15])
           nv_disciplined nv_stays_reachable nv_fullpath_stable nv_valid_run).
Qed.
Print Assumptions C03_reader_nonvacuous_lin.

(** *** Why the path claim is restricted for leaves

    The unrestricted claim "reach (H t) (h_node a) (firstn d k) at every t of
    the section" fails for a leaf hop.  At moment 0 the root inner node 0 has
    the leaf 1 (key [1;2]) under byte 1.  At moment 1 a writer has inserted
    [1;3]: node 0 (word bumped to 4) now has the new inner node 2 under byte
    1, and node 2 has the old, untouched leaf 1 under byte 2 and the new leaf
    3 under byte 3.  The history is disciplined and satisfies W1 and W2.  The
    reader of [1;2] locked the leaf at moment 0 after one consumed byte and
    checked it at moment 1 (its word never changed); at moment 1 the leaf is
    reached after two bytes, not one. *)
Definition cx_leaf1 := {| word := 0; cont := CLeaf [1;2] [10] |}.
Definition cx_g0 : gstate :=
  {| hp := fun n => match n with
                    | 0%nat => Some {| word := 0; cont := CInode [] [(1, 1%nat)] |}
                    | 1%nat => Some cx_leaf1
                    | _ => None
                    end;
     root_word := 0; root := Some 0%nat |}.
Definition cx_g1 : gstate :=
  {| hp := fun n => match n with
                    | 0%nat => Some {| word := 4; cont := CInode [] [(1, 2%nat)] |}
                    | 1%nat => Some cx_leaf1
                    | 2%nat => Some {| word := 0; cont := CInode [] [(2, 1%nat); (3, 3%nat)] |}
                    | 3%nat => Some {| word := 0; cont := CLeaf [1;3] [11] |}
                    | _ => None
                    end;
     root_word := 0; root := Some 0%nat |}.
Definition cx_H : history := fun t => if (t <? 1)%nat then cx_g0 else cx_g1.
Definition cx_key : key := [1;2].
Definition cx_hop_leaf : hop :=
  {| h_node := 1%nat; h_lock := 0%nat; h_check := 1%nat; h_word := 0; h_cont := CLeaf [1;2] [10] |}.
Definition cx_run : run :=
  {| r_lock := 0%nat; r_word := 0; r_check := 0%nat; r_ptr := Some 0%nat;
     r_hops := [ {| h_node := 0%nat; h_lock := 0%nat; h_check := 0%nat; h_word := 0; h_cont := CInode [] [(1, 1%nat)] |};
                 cx_hop_leaf ] |}.

Lemma cx_disciplined : disciplined cx_H.
Proof.
  split.
  - intros n t1 t2 c1 c2 Hle H1 H2 Hw Hf t Ht. unfold cx_H in *.
    destruct (Nat.ltb_spec t1 1), (Nat.ltb_spec t2 1), (Nat.ltb_spec t 1); try lia; try assumption;
      do 5 (try destruct n as [|n]); cbn in H1, H2 |- *; try discriminate H1;
      injection H1 as <-; injection H2 as <-; cbn in Hw; try discriminate Hw; reflexivity.
  - intros t1 t2 Hle Hw Hf t Ht. unfold cx_H.
    destruct (t1 <? 1)%nat, (t <? 1)%nat; reflexivity.
Qed.

Lemma cx_reach_g1_leaf : reach cx_g1 1%nat ([] ++ [] ++ [1] ++ [] ++ [2]).
Proof.
  rewrite app_assoc. rewrite app_assoc.
  eapply reach_child with (n := 2%nat); [| reflexivity | reflexivity | reflexivity].
  rewrite <- app_assoc.
  eapply reach_child with (n := 0%nat); [| reflexivity | reflexivity | reflexivity].
  apply reach_root. reflexivity.
Qed.

Lemma cx_stays_reachable : stays_reachable cx_H.
Proof.
  intros t t' n pth Hle Hr _. unfold cx_H in *.
  destruct (Nat.ltb_spec t 1), (Nat.ltb_spec t' 1); try lia; eauto.
  inversion Hr as [n0 Hroot | n0 pth0 c p cs b c' Hr0 Hc Hk Hf]; subst.
  - cbn in Hroot. injection Hroot as <-. exists []. apply reach_root. reflexivity.
  - parent_cases n0 Hc Hk Hf. subst. eexists. exact cx_reach_g1_leaf.
Qed.

Lemma cx_reach0 : forall g, g = cx_g0 \/ g = cx_g1 -> forall pth, reach g 0%nat pth -> pth = [].
Proof.
  intros g Hg pth Hr. inversion Hr as [n Hroot | n pth0 c p cs b c' Hr0 Hc Hk Hf]; [reflexivity|].
  exfalso. destruct Hg; subst g; parent_cases n Hc Hk Hf; discriminate.
Qed.

Lemma cx_reach2 : forall pth, reach cx_g1 2%nat pth -> pth = [1].
Proof.
  intros pth Hr. inversion Hr as [n Hroot | n pth0 c p cs b c' Hr0 Hc Hk Hf].
  - cbn in Hroot. discriminate.
  - pose proof (cx_reach0 cx_g1 (or_intror eq_refl)) as R0.
    parent_cases n Hc Hk Hf; try discriminate.
    rewrite (R0 _ Hr0). reflexivity.
Qed.

Lemma cx_fullpath_stable : fullpath_stable cx_H.
Proof.
  exists (fun n => match n with 0%nat => [] | _ => [1] end).
  intros t n pth c p cs Hr Hc Hk.
  assert (Hg : cx_H t = cx_g0 \/ cx_H t = cx_g1).
  { unfold cx_H. destruct (t <? 1)%nat; auto. }
  pose proof (cx_reach0 _ Hg) as R0.
  destruct Hg as [Hg|Hg]; rewrite Hg in *;
    do 5 (try destruct n as [|n]); cbn in Hc; try discriminate Hc;
    injection Hc as Hc; rewrite <- Hc in Hk; cbn in Hk; try discriminate Hk;
    injection Hk as <- <-;
    (rewrite (R0 _ Hr) || rewrite (cx_reach2 _ Hr)); reflexivity.
Qed.

Lemma cx_valid_run : valid_run cx_H cx_key cx_run (Some [10]).
Proof.
  unfold valid_run. cbn [r_lock r_check r_word r_ptr r_hops cx_run].
  repeat split; try reflexivity; try lia.
  eexists _, _. split; [reflexivity|]. split; [reflexivity|].
  eapply ho_step with (p := []) (cs := [(1, 1%nat)]).
  - unfold hop_observed. cbn. repeat split; try lia; eexists; repeat split; reflexivity.
  - cbn. lia.
  - reflexivity.
  - reflexivity.
  - reflexivity.
  - eapply ho_last.
    + unfold hop_observed. cbn. repeat split; try lia; eexists; repeat split; reflexivity.
    + cbn. lia.
    + cbn. apply st_hit.
Qed.

Lemma cx_leaf_moved : ~ reach (cx_H 1%nat) 1%nat [1].
Proof.
  change (cx_H 1%nat) with cx_g1. intros Hr.
  inversion Hr as [n Hroot | n pth0 c p cs b c' Hr0 Hc Hk Hf Hc' Heq]. clear Hc'.
  parent_cases n Hc Hk Hf; try discriminate.
  - cbn in Heq. change [1] with ([] ++ [1]) in Heq.
    apply app_inj_tail in Heq. destruct Heq as [_ Heq]. discriminate.
Qed.

Example C03_leaf_path_may_change : exists H k rn r,
  disciplined H /\ stays_reachable H /\ fullpath_stable H /\ valid_run H k rn r /\
  exists a d t, In (a, d) (hop_depths 0 (r_hops rn)) /\ (h_lock a <= t <= h_check a)%nat /\
    ~ reach (H t) (h_node a) (firstn d k).
Proof.
  exists cx_H, cx_key, cx_run, (Some [10]).
  split; [exact cx_disciplined|]. split; [exact cx_stays_reachable|]. split; [exact cx_fullpath_stable|].
  split; [exact cx_valid_run|].
  exists cx_hop_leaf, 1%nat, 1%nat. split; [cbn; auto|]. split; [cbn; lia|].
  exact cx_leaf_moved.
Qed.
Print Assumptions C03_leaf_path_may_change.
