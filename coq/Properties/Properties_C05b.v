(** C05b — tie of the QSBR model's (epoch, T, P) arithmetic to the source: the
    static functions of [qsbr_state] and [qsbr_epoch::advance] (qsbr.hpp),
    translated on every run into Gen/GenQsbrState.v, compute on the packed
    64-bit word exactly what Qsbr/QsbrModel.v computes on (q_ep, q_T, q_P).

    [word_fields w] = (epoch, T, P) = (bits 62..63, bits 32..61, bits 0..29);
    [word_make e t p] is the word with these fields and bits 30..31 clear;
    [qword s] = [word_make (q_ep s) (q_T s) (q_P s)].  The range hypotheses are
    the UNODB_DETAIL_ASSERTs written inside the C++ functions. *)
From Coq Require Import List ZArith Bool.
From Unodb Require Import Gen.GenQsbrState Qsbr.QsbrModel Qsbr.QsbrWordBridge.
Import ListNotations.
Local Open Scope Z_scope.

(** the constants of the header are the layout of [word_fields] *)
Theorem C05b_layout :
  qs_epoch_in_word_offset = 62 /\ qs_thread_count_in_word_offset = 32 /\
  qs_max_qsbr_threads = max_threads /\ qs_thread_count_mask = Z.ones 30 /\
  qs_threads_in_previous_epoch_in_word_mask = Z.ones 30 /\
  qs_thread_count_in_word_mask = Z.shiftl (Z.ones 30) 32 /\
  qs_one_thread_in_count = 2 ^ 32 /\ qs_one_thread_and_one_in_previous = 2 ^ 32 + 1 /\
  qe_max = 3 /\ qe_max_count = 4.
Proof. exact layout_constants. Qed.
Print Assumptions C05b_layout.

(** [word_make] and [word_fields] are inverse on fields in range, and such words satisfy [assert_invariants] *)
Theorem C05b_view : forall e t p, fields_ok e t p ->
  word64 (word_make e t p) /\ word_fields (word_make e t p) = (e, t, p).
Proof. exact fields_make. Qed.
Print Assumptions C05b_view.

Theorem C05b_view_wf : forall e t p, fields_ok e t p -> word_wf (word_make e t p).
Proof. exact make_wf. Qed.
Print Assumptions C05b_view_wf.

(** qsbr_epoch::advance() is the model's [ep_adv] *)
Theorem C05b_epoch_advance : forall e, 0 <= e <= 3 -> qe_advance qe_advance_default_by e = ep_adv e.
Proof. exact bridge_epoch_advance. Qed.
Print Assumptions C05b_epoch_advance.

(** getters, on any 64-bit word and in particular on [word_make e t p] *)
Theorem C05b_getters : forall w e t p, word64 w -> word_fields w = (e, t, p) ->
  qs_get_epoch w = e /\ qs_get_thread_count w = t /\ qs_get_threads_in_previous_epoch w = p /\
  qs_single_thread_mode w = (t <? 2).
Proof. exact bridge_getters. Qed.
Print Assumptions C05b_getters.

Theorem C05b_getters_make : forall e t p, fields_ok e t p ->
  qs_get_epoch (word_make e t p) = e /\ qs_get_thread_count (word_make e t p) = t /\
  qs_get_threads_in_previous_epoch (word_make e t p) = p /\
  qs_single_thread_mode (word_make e t p) = (t <? 2).
Proof. exact bridge_getters_make. Qed.
Print Assumptions C05b_getters_make.

Theorem C05b_make_from_epoch : forall e, 0 <= e <= 3 -> qs_make_from_epoch e = word_make e 0 0.
Proof. exact bridge_make_from_epoch. Qed.
Print Assumptions C05b_make_from_epoch.

(** the updates, on any 64-bit word with fields (e, t, p) *)
Theorem C05b_updates :
  (forall w e t p, word64 w -> word_fields w = (e, t, p) -> t + 1 <= max_threads ->
     word64 (qs_inc_thread_count w) /\ word_fields (qs_inc_thread_count w) = (e, t + 1, p)) /\
  (forall w e t p, word64 w -> word_fields w = (e, t, p) -> 0 < t ->
     word64 (qs_dec_thread_count w) /\ word_fields (qs_dec_thread_count w) = (e, t - 1, p)) /\
  (forall w e t p, word64 w -> word_fields w = (e, t, p) -> t + 1 <= max_threads -> p + 1 <= max_threads ->
     word64 (qs_inc_thread_count_and_threads_in_previous_epoch w) /\
     word_fields (qs_inc_thread_count_and_threads_in_previous_epoch w) = (e, t + 1, p + 1)) /\
  (forall w e t p, word64 w -> word_fields w = (e, t, p) -> 0 < t -> 0 < p ->
     word64 (qs_dec_thread_count_and_threads_in_previous_epoch w) /\
     word_fields (qs_dec_thread_count_and_threads_in_previous_epoch w) = (e, t - 1, p - 1)) /\
  (forall w e t p, word64 w -> word_fields w = (e, t, p) ->
     word64 (qs_inc_epoch_reset_previous w) /\ word_fields (qs_inc_epoch_reset_previous w) = (ep_adv e, t, t)) /\
  (forall w e t p, word64 w -> word_fields w = (e, t, p) -> 0 < t ->
     word64 (qs_inc_epoch_dec_thread_count_reset_previous w) /\
     word_fields (qs_inc_epoch_dec_thread_count_reset_previous w) = (ep_adv e, t - 1, t - 1)) /\
  (forall w b, qs_dec_thread_count_threads_in_previous_epoch_maybe_advance w b =
     if b then qs_inc_epoch_dec_thread_count_reset_previous w
     else qs_dec_thread_count_and_threads_in_previous_epoch w).
Proof.
  exact (conj bridge_inc_thread_count (conj bridge_dec_thread_count (conj bridge_inc_both (conj bridge_dec_both
        (conj bridge_inc_epoch_reset_previous (conj bridge_inc_epoch_dec_thread_count_reset_previous
        bridge_maybe_advance)))))).
Qed.
Print Assumptions C05b_updates.

(** the two epoch-changing functions return words with clear unused bits *)
Theorem C05b_epoch_change_words :
  (forall w e t p, word64 w -> word_fields w = (e, t, p) ->
     qs_inc_epoch_reset_previous w = word_make (ep_adv e) t t) /\
  (forall w e t p, word64 w -> word_fields w = (e, t, p) -> 0 < t ->
     qs_inc_epoch_dec_thread_count_reset_previous w = word_make (ep_adv e) (t - 1) (t - 1)).
Proof. exact (conj inc_epoch_reset_previous_make inc_epoch_dec_thread_count_reset_previous_make). Qed.
Print Assumptions C05b_epoch_change_words.

(** the asserted postconditions of [inc_epoch_reset_previous], through the generated getters *)
Theorem C05b_inc_epoch_asserts : forall w, word_wf w -> qs_get_threads_in_previous_epoch w = 0 ->
  let r := qs_inc_epoch_reset_previous w in
  word_wf r /\ qs_get_epoch r = qe_advance qe_advance_default_by (qs_get_epoch w) /\
  qs_get_thread_count r = qs_get_thread_count w /\ qs_get_threads_in_previous_epoch r = qs_get_thread_count r.
Proof. exact inc_epoch_reset_previous_asserts. Qed.
Print Assumptions C05b_inc_epoch_asserts.

(** every side condition the translator emitted (shift amounts in range) holds *)
Theorem C05b_defined : forall w e b,
  qe_get_val_defined e = true /\ qe_advance_defined qe_advance_default_by e = true /\
  qs_get_epoch_defined w = true /\ qs_get_thread_count_defined w = true /\
  qs_get_threads_in_previous_epoch_defined w = true /\ qs_single_thread_mode_defined w = true /\
  qs_make_from_epoch_defined e = true /\ qs_inc_thread_count_defined w = true /\ qs_dec_thread_count_defined w = true /\
  qs_inc_thread_count_and_threads_in_previous_epoch_defined w = true /\
  qs_dec_thread_count_and_threads_in_previous_epoch_defined w = true /\
  qs_inc_epoch_reset_previous_defined w = true /\ qs_inc_epoch_dec_thread_count_reset_previous_defined w = true /\
  qs_dec_thread_count_threads_in_previous_epoch_maybe_advance_defined w b = true.
Proof. exact bridge_defined. Qed.
Print Assumptions C05b_defined.

(** * the model's calls on the packed word *)

Theorem C05b_model_init : forall n, qword (qinit n) = 0 /\ qs_make_from_epoch 0 = 0.
Proof. exact model_init. Qed.
Print Assumptions C05b_model_init.

(** what the model reads from the state ([q_ep s], [q_T s <? 2], [q_P s]) is what the getters return *)
Theorem C05b_model_reads : forall s, q_fields_ok s ->
  qs_get_epoch (qword s) = q_ep s /\ qs_get_thread_count (qword s) = q_T s /\
  qs_get_threads_in_previous_epoch (qword s) = q_P s /\ qs_single_thread_mode (qword s) = (q_T s <? 2).
Proof. exact model_reads. Qed.
Print Assumptions C05b_model_reads.

(** register_thread *)
Theorem C05b_model_register : forall s t, q_fields_ok s -> q_T s + 1 <= max_threads ->
  qword (fst (q_register s t)) = qs_inc_thread_count_and_threads_in_previous_epoch (qword s).
Proof. exact model_register. Qed.
Print Assumptions C05b_model_register.

(** quiescent: fetch_sub(1) (= [qword s - 1], see [fields_fetch_sub_1]) and, for the last
    thread of the epoch, change_epoch's inc_epoch_reset_previous *)
Theorem C05b_model_quiescent : forall s t, q_fields_ok s -> 1 <= q_P s ->
  qword (fst (q_quiescent s t)) =
  if leaves_prev s t then (if 1 <? q_P s then qword s - 1 else qs_inc_epoch_reset_previous (qword s - 1))
  else qword s.
Proof. exact model_quiescent. Qed.
Print Assumptions C05b_model_quiescent.

Theorem C05b_fetch_sub : forall w e t p, word64 w -> word_fields w = (e, t, p) -> 0 < p ->
  word64 (w - 1) /\ word_fields (w - 1) = (e, t, p - 1).
Proof. exact fields_fetch_sub_1. Qed.
Print Assumptions C05b_fetch_sub.

(** unregister_thread *)
Theorem C05b_model_unregister : forall s t, q_fields_ok s -> 1 <= q_T s ->
  qword (fst (q_unregister s t)) =
  if q_P s =? 0 then qs_dec_thread_count (qword s)
  else if leaves_prev s t && (q_P s =? 1)
       then qs_dec_thread_count_threads_in_previous_epoch_maybe_advance (qword s) true
  else if leaves_prev s t
       then qs_dec_thread_count_threads_in_previous_epoch_maybe_advance (qword s) false
  else qs_dec_thread_count (qword s).
Proof. exact model_unregister. Qed.
Print Assumptions C05b_model_unregister.

(** the single-step epoch change on exit equals the two steps this tree's unregister_thread takes *)
Theorem C05b_unregister_two_steps : forall w e t, word64 w -> word_fields w = (e, t, 1) -> 0 < t ->
  qs_inc_epoch_dec_thread_count_reset_previous w =
  qs_dec_thread_count_and_threads_in_previous_epoch (qs_inc_epoch_reset_previous (w - 1)).
Proof. exact unregister_advance_two_steps. Qed.
Print Assumptions C05b_unregister_two_steps.

(** on_next_epoch_deallocate only reads the word *)
Theorem C05b_model_retire : forall s t p, qword (fst (q_retire s t p)) = qword s.
Proof. exact model_retire. Qed.
Print Assumptions C05b_model_retire.

(** non-vacuity: concrete words through the generated functions *)
Example C05b_nonvacuous :
  word_fields (qs_inc_epoch_reset_previous (word_make 3 5 0)) = (0, 5, 5) /\
  word_fields (qs_inc_thread_count_and_threads_in_previous_epoch (word_make 2 7 4)) = (2, 8, 5) /\
  word_fields (qs_dec_thread_count_threads_in_previous_epoch_maybe_advance (word_make 1 3 1) true) = (2, 2, 2) /\
  qs_get_thread_count 18446744073709551615 = max_threads /\ qs_get_epoch 18446744073709551615 = 3.
Proof. vm_compute. repeat split; reflexivity. Qed.
