(** C08 — failed operations leave no trace (strong exception guarantee). *)
From Coq Require Import List ZArith Bool.
From Unodb Require Import Base.Lex Art.ArtModel Art.ArtFault.
Import ListNotations.
Local Open Scope Z_scope.

Theorem C08_insert_strong : forall sz d k v j d',
  db_insert_fault (Some j) sz d k v = Ok (Raised d') ->
  d' = d /\ db_insert_fault None sz d' k v = (r <- db_insert sz d k v ;; Ok (Done (fst r) (snd r))).
Proof. exact insert_fault_strong. Qed.
Print Assumptions C08_insert_strong.

Theorem C08_remove_strong : forall sz d k j d',
  db_remove_fault (Some j) sz d k = Ok (Raised d') ->
  d' = d /\ db_remove_fault None sz d' k = (r <- db_remove sz d k ;; Ok (Done (fst r) (snd r))).
Proof. exact remove_fault_strong. Qed.
Print Assumptions C08_remove_strong.

Theorem C08_no_fault_beyond : forall sz d k v j n,
  db_insert_allocs d k v = Ok n -> (n < j)%nat ->
  db_insert_fault (Some j) sz d k v = db_insert_fault None sz d k v.
Proof. exact insert_fault_beyond. Qed.
Print Assumptions C08_no_fault_beyond.

Theorem C08_alloc_bound : forall e, (ev_allocs e <= 2)%nat.
Proof. exact ev_allocs_bound. Qed.
Print Assumptions C08_alloc_bound.

Theorem C08_noop_no_alloc : forall d k v n,
  db_insert_allocs d k v = Ok n -> (forall sz, exists d', db_insert sz d k v = Ok (d', false)) -> n = O.
Proof. exact insert_noop_no_alloc. Qed.
Print Assumptions C08_noop_no_alloc.
