(** C14 — progress accounting for the OLC index (trace level): who can make a
    thread restart or wait, and that a thread running alone does neither.
    Statements only; each closed by [exact]; [Print Assumptions] beneath. *)
From Coq Require Import List ZArith Bool.
From Unodb Require Import Lock.LockModel Lock.LockProofs Lock.LockProgress Olc.OlcTrace Olc.OlcProofs Olc.Deadlock Olc.Progress.
Import ListNotations.
Local Open Scope Z_scope.

(** One lock: a failed check / failed upgrade of a section opened at the free
    version v happens only if some thread acquired the write lock after the
    section was opened (restarts are charged to write acquisitions). *)
Theorem C14d_failed_check_charged : forall n p t v s0 m obs s2,
  lrun (linit n) (p ++ [ERLock t v]) = Some s0 -> w_is_free v = true ->
  lrun s0 (m ++ [ECheck t v obs]) = Some s2 -> obs <> v ->
  exists t' v', In (EUpgrade t' v' true) m.
Proof. exact failed_check_charged. Qed.
Print Assumptions C14d_failed_check_charged.

Theorem C14d_failed_upgrade_charged : forall n p t v s0 m s2,
  lrun (linit n) (p ++ [ERLock t v]) = Some s0 -> w_is_free v = true ->
  lrun s0 (m ++ [EUpgrade t v false]) = Some s2 ->
  exists t' v', In (EUpgrade t' v' true) m.
Proof. exact failed_upgrade_charged. Qed.
Print Assumptions C14d_failed_upgrade_charged.

(** a read-lock that has to wait (it observed a write-locked word) faces a
    lock with exactly one holder *)
Theorem C14d_wait_has_holder : forall n p s t obs,
  lrun (linit n) p = Some s -> lstep s (ERLock t obs) = Some s -> w_is_write_locked obs = true ->
  exists u, guards s = [u].
Proof. exact wait_has_holder. Qed.
Print Assumptions C14d_wait_has_holder.

(** Whole index, any accepted trace, any node: the same accounting, and the
    acquiring thread is ANOTHER thread whenever the restarted thread did not
    itself acquire that node in between. *)
Theorem C14d_restart_charged_node : forall inits tr b s0 pre t v mid obs post,
  node_accepts inits tr = true -> inits_ok inits -> In (b, s0) inits ->
  project b tr = pre ++ ERLock t v :: mid ++ ECheck t v obs :: post ->
  w_is_free v = true -> obs <> v ->
  exists t' v', In (EUpgrade t' v' true) mid.
Proof. exact failed_check_charged_node. Qed.
Print Assumptions C14d_restart_charged_node.

Theorem C14d_restart_charged_upgrade_node : forall inits tr b s0 pre t v mid post,
  node_accepts inits tr = true -> inits_ok inits -> In (b, s0) inits ->
  project b tr = pre ++ ERLock t v :: mid ++ EUpgrade t v false :: post ->
  w_is_free v = true ->
  exists t' v', In (EUpgrade t' v' true) mid.
Proof. exact failed_upgrade_charged_node. Qed.
Print Assumptions C14d_restart_charged_upgrade_node.

Theorem C14d_restart_charged_to_other : forall inits tr b s0 pre t v mid obs post,
  node_accepts inits tr = true -> inits_ok inits -> In (b, s0) inits ->
  project b tr = pre ++ ERLock t v :: mid ++ ECheck t v obs :: post ->
  w_is_free v = true -> obs <> v ->
  (forall v', ~ In (EUpgrade t v' true) mid) ->
  exists t' v', t' <> t /\ In (EUpgrade t' v' true) mid.
Proof. exact failed_check_charged_other. Qed.
Print Assumptions C14d_restart_charged_to_other.

(** No help needed: after any accepted prefix that leaves no write guard held
    (every earlier operation has returned: Protocol rule R3), in a period in
    which nobody acquires a write lock, on every node every read-lock
    observes one and the same non-write-locked word w (so it does not wait),
    every check observes w, and an upgrade attempt can fail only for a version
    other than w (a version saved before the period). *)
Theorem C14d_quiet_suffix : forall inits pre suf b s0,
  olc_trace_ok inits (pre ++ suf) = true -> inits_ok inits -> In (b, s0) inits ->
  held_after [] pre = [] -> quiet_g suf = true ->
  exists w, w_is_write_locked w = false /\
    (forall a t obs c, project b suf = a ++ ERLock t obs :: c -> obs = w) /\
    (forall a t v obs c, project b suf = a ++ ECheck t v obs :: c -> obs = w) /\
    (forall a t v c, project b suf = a ++ EUpgrade t v false :: c -> v <> w).
Proof. exact quiet_suffix. Qed.
Print Assumptions C14d_quiet_suffix.

(** hence every section opened in such a period validates: a get or a scan
    step running alone is never sent back and never waits *)
Theorem C14d_alone_never_restarts : forall inits pre suf b s0 a t v m obs c,
  olc_trace_ok inits (pre ++ suf) = true -> inits_ok inits -> In (b, s0) inits ->
  held_after [] pre = [] -> quiet_g suf = true ->
  project b suf = a ++ ERLock t v :: m ++ ECheck t v obs :: c ->
  obs = v /\ w_is_write_locked v = false.
Proof. exact quiet_sections_validate. Qed.
Print Assumptions C14d_alone_never_restarts.

(** non-vacuity.  Node 1: thread 1 opens a section at 0; thread 2 opens one,
    upgrades, unlocks (word 4); thread 1's check fails - charged to thread 2.
    Afterwards no guard is held; thread 1 alone re-reads: lock at 4, check at 4. *)
Definition ex_inits : list (blk * lstate) := [(1%nat, linit 1)].
Definition ex_pre : list gev :=
  [(1%nat, ERLock 1%nat 0); (1%nat, ERLock 2%nat 0); (1%nat, EUpgrade 2%nat 0 true); (1%nat, EStore 2%nat 0%nat 7);
   (1%nat, EWUnlock 2%nat 4); (1%nat, ECheck 1%nat 0 4)].
Definition ex_suf : list gev := [(1%nat, ERLock 1%nat 4); (1%nat, ELoad 1%nat 0%nat 7); (1%nat, ECheck 1%nat 4 4)].

Example C14d_ex_accepted : olc_trace_ok ex_inits (ex_pre ++ ex_suf) = true /\ held_after [] ex_pre = [] /\ quiet_g ex_suf = true.
Proof. vm_compute. auto. Qed.

Example C14d_ex_inits_ok : inits_ok ex_inits.
Proof. intros b s0 [E|[]]; injection E as _ <-; (split; [apply linit_inv|reflexivity]). Qed.

Example C14d_ex_charged : exists t' v', t' <> 1%nat /\
  In (EUpgrade t' v' true) [ERLock 2%nat 0; EUpgrade 2%nat 0 true; EStore 2%nat 0%nat 7; EWUnlock 2%nat 4].
Proof.
  apply (C14d_restart_charged_to_other ex_inits (ex_pre ++ ex_suf) 1%nat (linit 1) [] 1%nat 0 _ 4
           (map snd ex_suf)).
  - vm_compute. reflexivity.
  - exact C14d_ex_inits_ok.
  - now left.
  - vm_compute. reflexivity.
  - reflexivity.
  - discriminate.
  - intros v' [H|[H|[H|[H|[]]]]]; discriminate.
Qed.

Example C14d_ex_alone : 4 = 4 /\ w_is_write_locked 4 = false.
Proof.
  apply (C14d_alone_never_restarts ex_inits ex_pre ex_suf 1%nat (linit 1) [] 1%nat 4 [ELoad 1%nat 0%nat 7] 4 []).
  - exact (proj1 C14d_ex_accepted).
  - exact C14d_ex_inits_ok.
  - now left.
  - reflexivity.
  - reflexivity.
  - vm_compute. reflexivity.
Qed.
