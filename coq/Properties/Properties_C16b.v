(** C16b: in assertion-enabled builds no internal assertion fires for usage
    that respects the documented preconditions - the sequential get / insert /
    remove paths.  Every UNODB_DETAIL_ASSERT of art.hpp, art_internal.hpp and
    art_internal_impl.hpp is listed in Art/ArtAsserts.v as modelled (a boolean
    check evaluated by the instrumented twin [assert_log] where the C++
    evaluates it) or unmodelled (with the reason); the list is compared with
    the inventory regenerated from the headers on every run. *)
From Coq Require Import String List ZArith Bool.
From Unodb Require Import Base.Lex Art.ArtModel Art.ArtSpec Art.ArtGenInv Gen.GenAsserts
  Art.ArtAsserts Art.ArtAssertsProofs Art.ArtAssertsBridge.
Import ListNotations.

(** along every history accepted by the executable domain predicate of C01g
    (prefix-free operation keys, 7-byte prefix capacity guard) the log of
    failed assertions of every step is empty *)
Theorem C16b_asserts_silent : forall sz ops, hist_ok sz db0 ([], 0%Z) ops = true ->
  Forall (fun l : list string => l = []) (run_logs sz db0 ops).
Proof. exact asserts_silent. Qed.
Print Assumptions C16b_asserts_silent.

(** the same, naming the state and the operation of step [i] *)
Theorem C16b_asserts_silent_at : forall sz ops i, hist_ok sz db0 ([], 0%Z) ops = true -> i < length ops ->
  assert_log (run_state sz db0 (firstn i ops)) (nth i ops OEmpty) = [].
Proof. exact asserts_silent_at. Qed.
Print Assumptions C16b_asserts_silent_at.

(** non-vacuity: a history inside the domain with leaf split, prefix split,
    additions to and removals from all four node classes, growth 4 -> 16 ->
    48 -> 256, shrinking back to 4 and collapses (one into an inner node) *)
Example C16b_nonvacuous :
  hist_ok k1_sz db0 ([], 0%Z) ex_asserts = true /\
  forallb (fun e => has_ev e (run_events k1_sz db0 ex_asserts))
    [ELeafSplit; EPrefixSplit; EAdd C4; EAdd C16; EAdd C48; EAdd C256; EGrow C16; EGrow C48; EGrow C256;
     ERemoveLeaf C4; ERemoveLeaf C16; ERemoveLeaf C48; ERemoveLeaf C256;
     EShrink C256; EShrink C48; EShrink C16; EShrink C4] = true /\
  concat (run_logs k1_sz db0 ex_asserts) = [].
Proof. exact ex_asserts_nonvacuous. Qed.

(** outside the domain assertions do fire: the K1 key pair (two prefix-free
    10-byte keys sharing 9 bytes) hits add_two_to_empty's "key1 != key2"; a
    collapse beyond 7 prefix bytes hits key_prefix::prepend; a looked-up key
    that is a proper prefix of the stored keys hits shift_right's
    "num_bytes <= key.size_bytes()" *)
Theorem C16b_assert_fires_outside_domain :
  (exists ops, hist_pf ([], 0%Z) ops = true /\ hist_ok k1_sz db0 ([], 0%Z) ops = false /\
               In "a_two_distinct" (concat (run_logs k1_sz db0 ops))) /\
  (exists ops, hist_pf ([], 0%Z) ops = true /\ hist_ok k1_sz db0 ([], 0%Z) ops = false /\
               hist_ok k1_sz db0 ([], 0%Z) (removelast ops) = true /\
               In "a_kp_prepend_fits" (concat (run_logs k1_sz db0 ops))) /\
  (exists ops, hist_pf ([], 0%Z) ops = false /\
               In "a_key_shift_view" (concat (run_logs k1_sz db0 ops))).
Proof. exact assert_fires_outside_domain. Qed.
Print Assumptions C16b_assert_fires_outside_domain.

(** the tie to the source: the classification covers exactly the assertions
    found in the headers (same pairs, same multiplicities) *)
Theorem C16b_inventory_matches : same_asserts gen_asserts classified_asserts = true.
Proof. exact asserts_inventory_matches. Qed.
Print Assumptions C16b_inventory_matches.

Theorem C16b_inventory_count :
  length gen_asserts = gen_asserts_count /\
  length modelled_asserts + length unmodelled_asserts = gen_asserts_count.
Proof. exact asserts_inventory_count. Qed.
Print Assumptions C16b_inventory_count.

Theorem C16b_inventory_sound : forall a b, same_asserts a b = true ->
  length a = length b /\ forall x, In x a \/ In x b -> count_pair x a = count_pair x b.
Proof. exact same_asserts_sound. Qed.
Print Assumptions C16b_inventory_sound.

(** every modelled assertion is mapped to an existing boolean check *)
Theorem C16b_checks_named : checks_named = true.
Proof. exact asserts_checks_named. Qed.
Print Assumptions C16b_checks_named.
