(** C17 — QSBR pointer wrappers act as raw pointers and track liveness exactly. *)
From Coq Require Import List String ZArith Bool Permutation.
From Unodb Require Import Ptr.PtrShape Ptr.PtrModel Ptr.PtrProofs Gen.GenPtrMethods.
Import ListNotations.
Local Open Scope Z_scope.

(** tie to the source: the method table regenerated from qsbr_ptr.hpp (assertion-enabled build) is balanced *)
Theorem C17_shapes : balanced ptr_methods = true.
Proof. vm_compute. reflexivity. Qed.
Print Assumptions C17_shapes.

(** every well-formed sequence of constructions, copies, moves, assignments
    between distinct objects, increments, arithmetic and destructions runs
    through the table and leaves exactly the addresses raw pointers would hold *)
Theorem C17_raw : forall tbl ops, balanced tbl = true ->
  forall s, prun tbl pinit ops = Some s ->
  forall i, lookup i (vals s) = lookup i (fold_left raw_step ops []).
Proof. exact prun_raw. Qed.
Print Assumptions C17_raw.

(** ... and the registry is exactly the multiset of non-null addresses of the live wrappers *)
Theorem C17_registry : forall tbl ops s, balanced tbl = true ->
  prun tbl pinit ops = Some s -> Permutation (reg s) (live_nonnull s).
Proof. exact prun_registry. Qed.
Print Assumptions C17_registry.

(** the table never gets stuck on a well-formed operation *)
Theorem C17_total : forall tbl ops s o, balanced tbl = true ->
  prun tbl pinit ops = Some s -> pop_ok s o = true -> exists s', pstep tbl s o = Some s'.
Proof. exact pstep_total. Qed.
Print Assumptions C17_total.

(** a quiescent state / pause / resume is accepted precisely when no non-null wrapper is alive *)
Theorem C17_verdict : forall tbl ops s, balanced tbl = true ->
  prun tbl pinit ops = Some s -> (quiescent_allowed s = true <-> live_nonnull s = []).
Proof. exact verdict_exact. Qed.
Print Assumptions C17_verdict.
