(** C10g — tree shape and node statistics as functions of the key set, for
    trees over variable-length prefix-free keys. *)
From Coq Require Import List ZArith Bool Lia.
From Unodb Require Import Base.Lex Art.ArtModel Art.ArtIter Art.ArtSpec Art.ArtInv Art.ArtScanSpec
  Art.ArtGenInv Art.ArtGenRun Art.ArtGenShape.
Import ListNotations.
Local Open Scope Z_scope.

(** History independence: two trees satisfying the generalised invariant
    below the same path and holding the same entries have the same shape. *)
Theorem C10g_canonical : forall t1 t2 pi, WFg t1 pi -> WFg t2 pi ->
  kvs (leaves t1) = kvs (leaves t2) -> erase t1 = erase t2.
Proof. exact shape_unique_g. Qed.
Print Assumptions C10g_canonical.

Theorem C10g_class_by_fanout : forall c p ch pi, WFg (Inode c p ch) pi ->
  c = (if (length ch <=? 4)%nat then C4 else if (length ch <=? 16)%nat then C16
       else if (length ch <=? 48)%nat then C48 else C256) /\ (2 <= length ch <= 256)%nat.
Proof. exact class_by_fanout_g. Qed.
Print Assumptions C10g_class_by_fanout.

(** the statistics equal the functions of the tree after EVERY history (no
    hypothesis on the keys is needed for this part) *)
Theorem C10g_counts : forall sz ops,
  let d := run_state sz db0 ops in
  n_leaf (st d) = Z.of_nat (length (db_leaves d)) /\
  (forall c, n_i (st d) c = db_count_cls c d) /\
  mem (st d) = db_tree_mem sz d.
Proof. exact stats_are_tree_functions_all. Qed.
Print Assumptions C10g_counts.

(** two histories over mixed-length keys reaching the same contents in a
    different order (and through a prefix split / collapse) *)
Definition ex_sz : sizes := {| sz_leaf := 11; sz4 := 48; sz16 := 160; sz48 := 672; sz256 := 2064 |}.
Definition ex_h1 : list op :=
  [OInsert [1;2;3] [10]; OInsert [1;2;4;5] [11]; OInsert [1;9] [12]; OInsert [2] [13]].
Definition ex_h2 : list op :=
  [OInsert [2] [13]; OInsert [7;7] [0]; OInsert [1;9] [12]; OInsert [1;2;4;5] [11]; ORemove [7;7];
   OInsert [1;2;3] [10]].

Example C10g_ex : hist_ok ex_sz db0 ([], 0) ex_h1 = true /\ hist_ok ex_sz db0 ([], 0) ex_h2 = true /\
  kvs (db_leaves (run_state ex_sz db0 ex_h1)) = kvs (db_leaves (run_state ex_sz db0 ex_h2)) /\
  option_map erase (root (run_state ex_sz db0 ex_h1)) = option_map erase (root (run_state ex_sz db0 ex_h2)).
Proof. vm_compute. repeat split. Qed.
