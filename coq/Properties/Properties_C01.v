(** C01 — point operations behave as an ordered map.
    Statements only; each closed by [exact]; [Print Assumptions] beneath. *)
From Coq Require Import List ZArith Bool Lia.
From Unodb Require Import Base.Lex Art.ArtModel Art.ArtIter Art.ArtSpec Art.ArtInv Art.ArtProofs.
Import ListNotations.
Local Open Scope Z_scope.

(** Every history of get/insert/remove/empty/clear over keys of one fixed
    length L <= 8 (64-bit integer keys: L = 8) returns exactly what the map
    specification returns, never hits an out-of-bounds access or runs out of
    fuel, and leaves a well-formed tree holding exactly the specification's
    entries (including which insert created each entry: leaf identity). *)
Theorem C01_refines_map : forall L sz ops, (1 <= L <= 8)%nat -> Forall (op_ok L) ops ->
  run sz db0 ops = spec_run ([], 0) ops.
Proof. exact run_refines_spec. Qed.
Print Assumptions C01_refines_map.

Theorem C01_invariant : forall L sz ops, (1 <= L <= 8)%nat -> Forall (op_ok L) ops ->
  let d := run_state sz db0 ops in
  db_WF L d /\ keys_nodup (db_leaves d) /\
  forall k, key_ok L k -> db_get d k = Ok (assoc k (db_leaves d)).
Proof. exact run_state_invariant. Qed.
Print Assumptions C01_invariant.

(** Leaf identity: as long as no successful remove of k and no clear
    intervenes, every later get of k returns the same leaf (same id, same
    value bytes) -- stated on the specification, which the model refines. *)
Theorem C01_leaf_identity : forall s o k x,
  assoc k (fst s) = Some x ->
  (match o with ORemove k' => k' <> k | OClear => False | _ => True end) ->
  assoc k (fst (fst (spec_step s o))) = Some x.
Proof. exact spec_step_keeps_entry. Qed.
Print Assumptions C01_leaf_identity.

(** Outside the domain (byte-string keys sharing more than 7 bytes below a
    branch point) the faithful model loses a key: known finding K1. *)
Theorem C01_bytes_refuted : exists sz ops,
  run sz db0 ops <> spec_run ([], 0) ops.
Proof. exact long_shared_run_refuted. Qed.
Print Assumptions C01_bytes_refuted.

Example C01_nonvacuous :
  op_ok 8 (OInsert [0;0;0;0;0;0;1;2] [7]) /\ (1 <= 8 <= 8)%nat.
Proof. split; [split; [reflexivity|repeat constructor; unfold is_byte_z; lia]|lia]. Qed.
