(** C06 — every deferred deallocation runs exactly once; thread count exact;
    drained after two quiescent states of the last thread. *)
From Coq Require Import List ZArith Bool Permutation.
From Unodb Require Import Qsbr.QsbrModel Qsbr.QsbrProofs.
Import ListNotations.
Local Open Scope Z_scope.

(** pointers handed to deferred deallocation by a history *)
Definition retired (ops : list qop) : list ptr :=
  flat_map (fun o => match o with QRetire _ p => [p] | _ => [] end) ops.

(** Exactly once: if the history retires pairwise distinct pointers, then what
    is still pending anywhere (per-thread lists, orphan lists) plus everything
    freed so far is a permutation of what was retired -- nothing lost, nothing
    freed twice -- whether the requester kept running, paused or exited. *)
Theorem C06_exactly_once : forall n ops s fs bads,
  qrun (qinit n) ops = Some (s, fs, bads) -> NoDup (retired ops) ->
  Permutation (pending s ++ concat fs) (retired ops).
Proof. exact qrun_exactly_once. Qed.
Print Assumptions C06_exactly_once.

(** The registered-thread count in the state word equals the number of
    threads registered-or-resumed and not yet paused-or-exited, and the
    in-previous-epoch count never exceeds it. *)
Theorem C06_thread_count : forall n ops s fs bads,
  qrun (qinit n) ops = Some (s, fs, bads) -> q_T s = registered_count s /\ 0 <= q_P s <= q_T s.
Proof. exact qrun_thread_count. Qed.
Print Assumptions C06_thread_count.

(** Once all but one thread have unregistered, two further quiescent states
    of the remaining thread leave no request pending anywhere. *)
Theorem C06_drain : forall n ops s fs bads t,
  qrun (qinit n) ops = Some (s, fs, bads) -> registered_count s = 1 -> op_enabled s (QQuiescent t) = true ->
  pending (fst (qstep (fst (qstep s (QQuiescent t))) (QQuiescent t))) = [].
Proof. exact drain_two_quiescent. Qed.
Print Assumptions C06_drain.
