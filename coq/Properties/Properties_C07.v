(** C07 — optimistic lock: validated reads consistent, writers exclusive,
    obsolete final.  Over every event sequence the acceptor [lrun] accepts
    from the initial state: any number of threads, any length. *)
From Coq Require Import List ZArith Bool.
From Unodb Require Import Lock.LockModel Lock.LockProofs Lock.LockBridge Gen.GenLockWord.
Import ListNotations.
Local Open Scope Z_scope.

(** at most one write guard is active, and exactly when the write bit is set *)
Theorem C07_exclusive : forall n tr s, lrun (linit n) tr = Some s ->
  (length (guards s) <= 1)%nat /\ (guards s <> [] <-> w_is_write_locked (lw s) = true).
Proof. exact exclusive. Qed.
Print Assumptions C07_exclusive.

(** a section opened at a free word v (state s0) whose later check/unlock
    sees v again (state s2) did not overlap any write-locked period: in every
    state in between the word is v, nobody holds the guard and the protected
    words are those of s0 *)
Theorem C07_snapshot : forall n p s0 m s2 v,
  lrun (linit n) p = Some s0 -> lw s0 = v -> w_is_free v = true -> lrun s0 m = Some s2 -> lw s2 = v ->
  Forall (fun s => lw s = v /\ lmem s = lmem s0 /\ guards s = []) (lstates s0 m).
Proof. exact snapshot. Qed.
Print Assumptions C07_snapshot.

Theorem C07_snapshot_loads : forall n p s0 m1 t i x m2 s2 v,
  lrun (linit n) p = Some s0 -> lw s0 = v -> w_is_free v = true ->
  lrun s0 (m1 ++ ELoad t i x :: m2) = Some s2 -> lw s2 = v ->
  nth_error (lmem s0) i = Some x.
Proof. exact snapshot_loads. Qed.
Print Assumptions C07_snapshot_loads.

(** an upgrade succeeds only if no writer acquired the lock since the section was opened *)
Theorem C07_upgrade : forall n p s0 m s1 t v s2,
  lrun (linit n) p = Some s0 -> lw s0 = v -> w_is_free v = true ->
  lrun s0 m = Some s1 -> lstep s1 (EUpgrade t v true) = Some s2 ->
  upgrades m = O /\ lmem s1 = lmem s0.
Proof. exact upgrade_exclusive. Qed.
Print Assumptions C07_upgrade.

(** once obsolete: the word stays obsolete and nobody holds or acquires the
    guard any more, no section opens, every open section fails its next check,
    no upgrade succeeds.  (The fields of an obsolete node may still be stored
    to -- the implementation finishes unlinking a replaced node after
    write_unlock_and_obsolete -- but by C07_obsolete_rejects no reader can
    open or validate a section on it, so those stores are never observed.) *)
Theorem C07_obsolete_final : forall n p s0 m s1,
  lrun (linit n) p = Some s0 -> lw s0 = 1 -> lrun s0 m = Some s1 -> lw s1 = 1 /\ guards s1 = [].
Proof. exact obsolete_final. Qed.
Print Assumptions C07_obsolete_final.

Theorem C07_obsolete_rejects : forall n p s0 e s1,
  lrun (linit n) p = Some s0 -> lw s0 = 1 -> lstep s0 e = Some s1 ->
  match e with
  | ERLock _ obs => rlock_opens obs = false /\ rlock_fails obs = true
  | ECheck _ v obs => w_is_free v = true -> check_ok v obs = false
  | EUpgrade _ _ ok => ok = false
  | EWUnlock _ _ | EWObsolete _ => False
  | EStore _ _ _ | ELoad _ _ _ | ESpin _ => True
  end.
Proof. exact obsolete_rejects. Qed.
Print Assumptions C07_obsolete_rejects.

(** fewer than 2^62 write acquisitions: the 64-bit word never wraps *)
Theorem C07_no_wrap : forall n tr s, lrun (linit n) tr = Some s -> Z.of_nat (upgrades tr) < 2 ^ 62 -> 0 <= lw s < 2 ^ 64.
Proof. exact no_wrap. Qed.
Print Assumptions C07_no_wrap.

(** tie to the source: the word functions of optimistic_lock.hpp *)
Theorem C07_bridge :
  (forall v, word64 v -> lw_is_free v = w_is_free v) /\
  (forall v, word64 v -> lw_is_write_locked v = w_is_write_locked v) /\
  (forall v, lw_is_obsolete v = w_is_obsolete v) /\
  (forall v, word64 v -> v + 2 < 2 ^ 64 -> lw_set_locked_bit v = w_set_locked v) /\
  (forall v, word64 v -> v + 2 < 2 ^ 64 -> lw_write_unlock_word v = v + 2) /\
  lw_obsolete_word = w_obsolete.
Proof.
  exact (conj bridge_is_free (conj bridge_is_write_locked (conj bridge_is_obsolete
        (conj bridge_set_locked_bit (conj bridge_write_unlock bridge_obsolete_word))))).
Qed.
Print Assumptions C07_bridge.

(** non-vacuity: a trace with a validated read, an upgrade, a write and an obsoletion is accepted *)
Example C07_nonvacuous :
  exists s, lrun (linit 2)
    [ERLock 1%nat 0; ELoad 1%nat O 0; ECheck 1%nat 0 0; ERLock 2%nat 0; EUpgrade 2%nat 0 true; EStore 2%nat O 7;
     ERLock 1%nat 2; ESpin 1%nat; EWUnlock 2%nat 4; ERLock 1%nat 4; EUpgrade 1%nat 4 true; EWObsolete 1%nat; ECheck 2%nat 4 1]
    = Some s /\ lw s = 1.
Proof. eexists. split; [vm_compute; reflexivity|reflexivity]. Qed.
