(** C12 — decoding inverts encoding. *)
From Coq Require Import List ZArith.
From Unodb Require Import Base.Lex Base.Bytes Encode.EncModel Encode.EncOrder Encode.EncTuple Encode.EncBridge.
From Unodb Require Import Gen.GenEncode Gen.GenFloat.
Local Open Scope Z_scope.

Theorem C12_uint_roundtrip : forall n v, in_u n v -> dec_uint (enc_uint n v) = v.
Proof. exact dec_enc_uint. Qed.
Print Assumptions C12_uint_roundtrip.

Theorem C12_int_roundtrip : forall n v, (1 <= n)%nat -> in_i n v -> dec_int (enc_int n v) = v.
Proof. exact dec_enc_int. Qed.
Print Assumptions C12_int_roundtrip.

(** Non-NaN values come back bit for bit (fcanon is the identity on them,
    including -0 and the infinities); every NaN comes back as the canonical
    quiet NaN. *)
Theorem C12_float_roundtrip : forall f x, fmt_ok f -> fword f x -> dec_float f (enc_float f x) = fcanon f x.
Proof. exact dec_enc_float. Qed.
Print Assumptions C12_float_roundtrip.

Theorem C12_width : forall c n, ty_width (ty_of c) = Some n -> length (enc_comp c) = n.
Proof. exact enc_comp_length. Qed.
Print Assumptions C12_width.

Theorem C12_sequence : forall cs, Forall comp_ok cs -> Forall fixed_comp cs ->
  decode_seq (map ty_of cs) (enc_tuple cs) = Some (map comp_canon cs).
Proof. exact decode_encode_seq. Qed.
Print Assumptions C12_sequence.

(** An encoder in any state (any capacity, grown or not, reset or not) shows
    exactly the encodings since the last reset, and never overflows. *)
Theorem C12_buffer : forall s ops, e_buf (enc_run s ops) = since_reset (e_buf s) ops.
Proof. exact enc_run_view. Qed.
Print Assumptions C12_buffer.

Theorem C12_buffer_capacity : forall s ops, enc_inv s -> enc_inv (enc_run s ops).
Proof. exact enc_run_inv. Qed.
Print Assumptions C12_buffer_capacity.

Theorem C12_bridge_int :
  (forall l, bytes_ok l -> length l = 1%nat -> dec_int l = dec_i8 (dec_uint l) /\ dec_i8_defined (dec_uint l) = true) /\
  (forall l, bytes_ok l -> length l = 2%nat -> dec_int l = dec_i16 (dec_uint l) /\ dec_i16_defined (dec_uint l) = true) /\
  (forall l, bytes_ok l -> length l = 4%nat -> dec_int l = dec_i32 (dec_uint l) /\ dec_i32_defined (dec_uint l) = true) /\
  (forall l, bytes_ok l -> length l = 8%nat -> dec_int l = dec_i64 (dec_uint l) /\ dec_i64_defined (dec_uint l) = true).
Proof. exact bridge_dec_int. Qed.
Print Assumptions C12_bridge_int.

Theorem C12_bridge_f32 : forall u, fword f32 u -> decf32 u = dec_float_word f32 u /\ decf32_defined u = true.
Proof. exact bridge_decf32. Qed.
Print Assumptions C12_bridge_f32.

Theorem C12_bridge_f64 : forall u, fword f64 u -> decf64 u = dec_float_word f64 u /\ decf64_defined u = true.
Proof. exact bridge_decf64. Qed.
Print Assumptions C12_bridge_f64.

Example C12_nonvacuous :
  Forall comp_ok (CI 8 (-3) :: CF f32 2143289344 (* a NaN *) :: CU 2 513 :: nil)
  /\ Forall fixed_comp (CI 8 (-3) :: CF f32 2143289345 :: CU 2 513 :: nil)
  /\ fcanon f32 2143289345 = 2143289344.
Proof.
  split; [|split; [repeat constructor|vm_compute; reflexivity]].
  repeat constructor; try exact f32_ok; vm_compute; congruence.
Qed.
