(** C10 — tree shape, node statistics and memory accounting are functions of
    the key set. *)
From Coq Require Import List ZArith Bool Lia.
From Unodb Require Import Base.Lex Art.ArtModel Art.ArtIter Art.ArtSpec Art.ArtInv Art.ArtScanSpec Art.ArtShapeProofs.
Import ListNotations.
Local Open Scope Z_scope.

(** History independence: two well-formed trees (same key length, same path)
    holding the same entries have the same shape -- same node classes, same
    prefixes, same child bytes -- whatever histories produced them. *)
Theorem C10_canonical : forall L t1 t2 pi, (1 <= L <= 8)%nat -> WF L t1 pi -> WF L t2 pi ->
  kvs (leaves t1) = kvs (leaves t2) -> erase t1 = erase t2.
Proof. exact shape_unique. Qed.
Print Assumptions C10_canonical.

(** every inner node is in the smallest class that fits its fan-out
    (2-4, 5-16, 17-48, 49-256): read off the invariant *)
Theorem C10_class_by_fanout : forall L c p ch pi, WF L (Inode c p ch) pi ->
  c = (if (length ch <=? 4)%nat then C4 else if (length ch <=? 16)%nat then C16
       else if (length ch <=? 48)%nat then C48 else C256) /\ (2 <= length ch <= 256)%nat.
Proof. exact class_by_fanout. Qed.
Print Assumptions C10_class_by_fanout.

(** the incrementally maintained statistics equal the functions of the tree
    after every history *)
Theorem C10_counts : forall L sz ops, (1 <= L <= 8)%nat -> Forall (op_ok L) ops ->
  let d := run_state sz db0 ops in
  n_leaf (st d) = Z.of_nat (length (db_leaves d)) /\
  (forall c, n_i (st d) c = db_count_cls c d) /\
  mem (st d) = db_tree_mem sz d.
Proof. exact stats_are_tree_functions. Qed.
Print Assumptions C10_counts.

(** growth / shrink / split counters never decrease *)
Theorem C10_monotone : forall sz d o c,
  grow (st d) c <= grow (st (fst (step sz d o))) c /\
  shrink (st d) c <= shrink (st (fst (step sz d o))) c /\
  splits (st d) <= splits (st (fst (step sz d o))).
Proof. exact counters_monotone. Qed.
Print Assumptions C10_monotone.

(** an empty or cleared index reports nothing *)
Theorem C10_clear : forall d c, n_leaf (st (db_clear d)) = 0 /\ n_i (st (db_clear d)) c = 0 /\ mem (st (db_clear d)) = 0.
Proof. exact clear_zero. Qed.
Print Assumptions C10_clear.
