(** C02g — scans on trees over variable-length prefix-free keys: they visit
    exactly the entries of the requested interval, in byte-wise key order, and
    stop as soon as the visitor returns true.  The seek key must be
    prefix-free w.r.t. the stored keys (the library's contract); the far bound
    of a range is only compared and may be any byte string. *)
From Coq Require Import List ZArith Bool Sorted Lia.
From Unodb Require Import Base.Lex Art.ArtModel Art.ArtIter Art.ArtSpec Art.ArtInv Art.ArtScanSpec
  Art.ArtGenInv Art.ArtGenLemmas Art.ArtGenRun Art.ArtGenIterProofs.
Import ListNotations.
Local Open Scope Z_scope.

Theorem C02g_leaves_sorted : forall d, db_WFg d -> StronglySorted entries_lt (db_leaves d).
Proof. exact db_leaves_sorted_g. Qed.
Print Assumptions C02g_leaves_sorted.

Theorem C02g_scan : forall d h, db_WFg d ->
  db_scan d true h = Ok (take_until h (kvs (db_leaves d))) /\
  db_scan d false h = Ok (take_until h (rev (kvs (db_leaves d)))).
Proof. exact db_scan_correct_g. Qed.
Print Assumptions C02g_scan.

Theorem C02g_scan_from : forall d k h, db_WFg d -> pfk k (db_leaves d) ->
  db_scan_from d k true h = Ok (take_until h (kvs (filter (ge_key k) (db_leaves d)))) /\
  db_scan_from d k false h = Ok (take_until h (rev (kvs (filter (le_key k) (db_leaves d))))).
Proof. exact db_scan_from_correct_g. Qed.
Print Assumptions C02g_scan_from.

Theorem C02g_scan_range : forall d a b h, db_WFg d -> pfk a (db_leaves d) ->
  db_scan_range d a b h =
  Ok (match lex_compare a b with
      | Eq => []
      | Lt => take_until h (kvs (filter (in_fwd_range a b) (db_leaves d)))
      | Gt => take_until h (rev (kvs (filter (in_rev_range a b) (db_leaves d))))
      end).
Proof. exact db_scan_range_correct_g. Qed.
Print Assumptions C02g_scan_range.

(** the hypothesis on the seek key is decidable *)
Theorem C02g_pf_decidable : forall k l, pfreeb k l = true <-> pfk k l.
Proof. exact pfreeb_iff. Qed.
Print Assumptions C02g_pf_decidable.

(** * a mixed-length instance *)

Definition ex_sz : sizes := {| sz_leaf := 11; sz4 := 48; sz16 := 160; sz48 := 672; sz256 := 2064 |}.
Definition ex_ops : list op :=
  [OInsert [1;2;3] [10]; OInsert [1;2;4;5] [11]; OInsert [1;9] [12]; OInsert [2] [13]; OInsert [1;2;3;0] [14]].
(** ([1;2;3;0] is refused by prefix-freedom, so only the first four are run) *)
Definition ex_db : db := run_state ex_sz db0 (firstn 4 ex_ops).

Example C02g_ex_hyp : hist_ok ex_sz db0 ([], 0) (firstn 4 ex_ops) = true /\
  hist_ok ex_sz db0 ([], 0) ex_ops = false /\
  pfreeb [1;3] (db_leaves ex_db) = true /\ pfreeb [1;2;3] (db_leaves ex_db) = true.
Proof. vm_compute. repeat split. Qed.

Example C02g_ex_scans :
  db_scan ex_db true None = Ok [([1;2;3],[10]); ([1;2;4;5],[11]); ([1;9],[12]); ([2],[13])] /\
  db_scan_from ex_db [1;3] true None = Ok [([1;9],[12]); ([2],[13])] /\
  db_scan_from ex_db [1;3] false None = Ok [([1;2;4;5],[11]); ([1;2;3],[10])] /\
  db_scan_range ex_db [1;2;3] [1;9;9;9] (Some 1%nat) = Ok [([1;2;3],[10]); ([1;2;4;5],[11])] /\
  db_scan_range ex_db [1;3] [1] None = Ok [([1;2;4;5],[11]); ([1;2;3],[10])].
Proof. vm_compute. repeat split. Qed.

(** a seek key that is a proper prefix of stored keys is outside the contract:
    the descent reads the key out of bounds (model and art.hpp iterator::seek
    alike: [remaining_key[0]] after the key is exhausted) *)
Example C02g_seek_prefix_needed :
  let d := run_state ex_sz db0 [OInsert [1;0;3] [1]; OInsert [1;0;4] [2]] in
  pfreeb [1] (db_leaves d) = false /\ db_scan_from d [1] true None = Err Oob.
Proof. vm_compute. split; reflexivity. Qed.
