(** C09c -- one step of the OLC iterator (olc_db::iterator, forward) is an
    interval successor query on the tree, and an iterator run (seek, then
    next calls that succeed directly or fall back to seek) is a chain of such
    queries: ordered, bounded, without phantoms, complete for stable keys.

    The atomic reading ("successor in the tree as it is at ONE moment") is
    false for this iterator (see the header of Olc/IterProofs.v); it does
    hold for the steps that end the scan and for a seek that lands on its
    leaf directly. *)
From Coq Require Import List ZArith Bool Arith Sorted Lia.
From Unodb Require Import Base.Lex Lock.LockModel Olc.ReadModel Olc.IterModel Olc.IterProofs Olc.IterSeek
  Olc.IterScan Olc.IterExample Olc.IterCounter.
Import ListNotations.
Local Open Scope Z_scope.

(** a successful try_next from key k that delivers (k', v'): within
    [t0, lock moment of the new leaf], (k', v') is in the tree at some moment,
    k < k', every key strictly between is absent at some moment; the new
    position satisfies the stack invariant again *)
Theorem C09c_next_step : forall H pos t0 pops pv tc b' c' rest hs a q k' v',
  disciplined H -> stays_reachable H -> fullpath_stable H -> wf_history H -> pos_ok H pos ->
  next_some H pos t0 pops pv tc b' c' rest hs a q k' v' ->
  (t0 <= h_lock a)%nat /\ wquery H t0 (h_lock a) true (ip_key pos) (Some (k', v')) /\
  pos_ok H (next_pos pv b' c' rest hs a k' v').
Proof. exact next_succ_some. Qed.
Print Assumptions C09c_next_step.

(** a successful try_next that empties the stack: atomic at t0 *)
Theorem C09c_next_end : forall H pos t0 pops,
  disciplined H -> stays_reachable H -> fullpath_stable H -> wf_history H -> pos_ok H pos ->
  next_none H pos t0 pops -> succ_query (H t0) (ip_key pos) None.
Proof. exact next_succ_none. Qed.
Print Assumptions C09c_next_end.

(** a successful forward seek (all endings of try_seek with fwd = true) *)
Theorem C09c_seek : forall H, disciplined H -> stays_reachable H -> fullpath_stable H -> wf_history H ->
  forall lo rl t1 t2 pos, seek_result H lo rl t1 t2 pos ->
  (rl <= t1 <= t2)%nat /\ pos_ok H pos /\ wquery H t1 t2 false lo (Some (ip_key pos, ip_val pos)).
Proof. exact seek_result_ok. Qed.
Print Assumptions C09c_seek.

Theorem C09c_seek_end : forall H, disciplined H -> stays_reachable H -> fullpath_stable H -> wf_history H ->
  forall lo rl T, seek_end H lo rl T -> (rl <= T)%nat /\ first_query (H T) false lo None.
Proof. exact seek_end_ok. Qed.
Print Assumptions C09c_seek_end.

(** the seek that lands on a leaf >= lo is an atomic query *)
Theorem C09c_seek_hit_atomic : forall H lo rl rw rc n0 hs a q k' v',
  disciplined H -> stays_reachable H -> fullpath_stable H -> wf_history H ->
  seek_down H lo rl rw rc n0 hs a q -> h_cont a = CLeaf k' v' -> lex_le lo k' ->
  (rl <= h_lock a)%nat /\ first_query (H (h_lock a)) false lo (Some (k', v')).
Proof. exact seek_hit_query. Qed.
Print Assumptions C09c_seek_hit_atomic.

(** try_first *)
Theorem C09c_first : forall H rl rw rc n0 hs a q k v,
  disciplined H -> stays_reachable H -> fullpath_stable H -> wf_history H ->
  first_down H rl rw rc n0 hs a q k v ->
  (rl <= h_lock a)%nat /\ wquery H rl (h_lock a) false [] (Some (k, v)) /\
  (hs <> [] -> pos_ok H (seek_pos hs a k v)).
Proof. exact first_down_query. Qed.
Print Assumptions C09c_first.

(** an iterator scan is a chain of interval queries *)
Theorem C09c_scan_is_chain : forall H, disciplined H -> stays_reachable H -> fullpath_stable H -> wf_history H ->
  forall t lo ds e, iter_scan H t lo ds e -> wscan H t false lo ds /\ run_end H t false lo ds e.
Proof. exact iter_scan_wscan. Qed.
Print Assumptions C09c_scan_is_chain.

(** ** The scan theorems for chains of interval queries *)

Theorem C09c_ordered_bounded : forall H t s lo ds, wscan H t s lo ds ->
  StronglySorted lex_lt (wkeys ds) /\ Forall (above s lo) (wkeys ds).
Proof. exact wscan_ordered_bounded. Qed.
Print Assumptions C09c_ordered_bounded.

Theorem C09c_values_held : forall H t s lo ds, wscan H t s lo ds ->
  Forall (fun d : delivery => let '(t1, t2, k, v) := d in
            (t <= t1)%nat /\ exists T, (t1 <= T <= t2)%nat /\ entry (H T) k v) ds.
Proof. exact wscan_values_held. Qed.
Print Assumptions C09c_values_held.

Theorem C09c_no_phantom : forall H t s lo ds k, wscan H t s lo ds ->
  (forall t', ~ has_key (H t') k) -> ~ In k (wkeys ds).
Proof. exact wscan_no_phantom. Qed.
Print Assumptions C09c_no_phantom.

Theorem C09c_complete_prefix : forall H t s lo ds k, wscan H t s lo ds ->
  above s lo k -> ~ above (fst (wfinal_bound s lo ds)) (snd (wfinal_bound s lo ds)) k ->
  (forall t', (t <= t' <= wlast_moment t ds)%nat -> has_key (H t') k) -> In k (wkeys ds).
Proof. exact wscan_complete_prefix. Qed.
Print Assumptions C09c_complete_prefix.

Theorem C09c_complete : forall H t s lo ds te1 te2 k, wscan H t s lo ds ->
  (wlast_moment t ds <= te1 <= te2)%nat -> wexhausted H te1 te2 (wfinal_bound s lo ds) ->
  above s lo k -> (forall t', (t <= t' <= te2)%nat -> has_key (H t') k) -> In k (wkeys ds).
Proof. exact wscan_complete. Qed.
Print Assumptions C09c_complete.

(** ** End to end: an iterator scan of the tree *)

(** keys come out in strictly increasing byte-wise order, all >= lo; every
    delivered entry was in the tree during its step; a key that is in the
    tree throughout the scan, >= lo and not beyond the last delivered key, is
    delivered; and if the scan ran to the end, every such key >= lo *)
Theorem C09c_iterator_scan : forall H, disciplined H -> stays_reachable H -> fullpath_stable H -> wf_history H ->
  forall t lo ds e, iter_scan H t lo ds e ->
  StronglySorted lex_lt (wkeys ds) /\ Forall (lex_le lo) (wkeys ds) /\
  Forall (fun d : delivery => let '(t1, t2, k, v) := d in
            (t <= t1)%nat /\ exists T, (t1 <= T <= t2)%nat /\ entry (H T) k v) ds /\
  (forall k, lex_le lo k -> ~ above (fst (wfinal_bound false lo ds)) (snd (wfinal_bound false lo ds)) k ->
     (forall t', (t <= t' <= wlast_moment t ds)%nat -> has_key (H t') k) -> In k (wkeys ds)) /\
  (forall te k, e = Some te -> lex_le lo k ->
     (forall t', (t <= t' <= te)%nat -> has_key (H t') k) -> In k (wkeys ds)).
Proof.
  intros H Hd Hs Hfp W t lo ds e S.
  destruct (iter_scan_wscan H Hd Hs Hfp W t lo ds e S) as [Sc En].
  destruct (wscan_ordered_bounded H t false lo ds Sc) as [O B].
  split; [exact O|]. split; [exact B|]. split; [exact (wscan_values_held H t false lo ds Sc)|]. split.
  - intros k Ak Hfb Hst. exact (wscan_complete_prefix H t false lo ds k Sc Ak Hfb Hst).
  - intros te k Ee Ak Hst. destruct (En te Ee) as [Hl Hx].
    apply (wscan_complete H t false lo ds te te k Sc); [lia | exact Hx | exact Ak | exact Hst].
Qed.
Print Assumptions C09c_iterator_scan.

(** ** Non-vacuity: a writer inserts [2;9] at moment 14, during the third
    step of a scan from [1;0] that delivers [1;1], [1;3], [2;7] *)
Example C09c_nonvacuous :
  disciplined Hx /\ stays_reachable Hx /\ fullpath_stable Hx /\ wf_history Hx /\
  iter_scan Hx 0 [1; 0] [(3%nat, 5%nat, [1; 1], [110]); (8%nat, 9%nat, [1; 3], [130]); (12%nat, 17%nat, [2; 7], [270])] None /\
  ~ has_key (Hx 13%nat) [2; 9] /\ has_key (Hx 14%nat) [2; 9].
Proof.
  split; [exact Hx_disciplined|]. split; [exact Hx_stays_reachable|]. split; [exact Hx_fullpath|].
  split; [exact Hx_wf|]. split; [exact x_scan | exact x_writer].
Qed.
Print Assumptions C09c_nonvacuous.

(** ** The atomic reading is false: a history that satisfies every condition,
    a successful try_next from "11" delivering "20" (so the interval query
    holds), and no moment at which "20" is the successor of "11" *)
Theorem C09c_step_not_atomic :
  disciplined Hc /\ stays_reachable Hc /\ fullpath_stable Hc /\ wf_history Hc /\ pos_ok Hc posc /\
  next_some Hc posc 1 [(ec1, 2%nat)] ec0 8 2 2%nat [] [ic2] ac [2; 0] [2; 0] [200] /\
  wquery Hc 1 6 true [1; 1] (Some ([2; 0], [200])) /\
  forall T, ~ succ_query (Hc T) [1; 1] (Some ([2; 0], [200])).
Proof.
  split; [exact Hc_disciplined|]. split; [exact Hc_stays_reachable|]. split; [exact Hc_fullpath|].
  split; [exact Hc_wf|]. split; [exact posc_ok|]. split; [exact stepc|].
  split; [exact stepc_interval | exact step_not_atomic].
Qed.
Print Assumptions C09c_step_not_atomic.
