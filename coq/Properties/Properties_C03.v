(** C03 — concurrent get/insert/remove on the OLC index are linearizable.
    What is a Coq theorem here: the lock layer lifted to every node of a
    trace accepted by the per-node acceptor, and the soundness of the
    linearizability validator run on every explored execution.  The
    end-to-end statement "every interleaving of the tree algorithms is
    linearizable" is NOT proved (DESIGN.md, C03: layers L2/L3 open); on the
    code it is decided for the explored schedules. *)
From Coq Require Import List ZArith Bool Permutation.
From Unodb Require Import Lock.LockModel Lock.LockProofs Olc.OlcTrace Olc.OlcProofs Lin.LinCheck Lin.LinProofs.
Import ListNotations.
Local Open Scope Z_scope.

(** L0/L1: in a trace accepted node by node, every store to a node's fields
    is made by the holder of that node's write guard (built into the
    acceptor), and a read section of any node that validates is a snapshot *)
Theorem C03_node_projection_accepted : forall inits tr b s0,
  node_accepts inits tr = true -> In (b, s0) inits -> exists s, lrun s0 (project b tr) = Some s.
Proof. exact node_accepts_lrun. Qed.
Print Assumptions C03_node_projection_accepted.

Theorem C03_node_snapshot : forall s0 m s2 v,
  LInv s0 -> lw s0 = v -> w_is_free v = true -> lrun s0 m = Some s2 -> lw s2 = v ->
  Forall (fun s => lw s = v /\ lmem s = lmem s0 /\ guards s = []) (lstates s0 m).
Proof. exact node_snapshot. Qed.
Print Assumptions C03_node_snapshot.

(** the validator that decides each recorded history is sound: an accepted
    witness order is a permutation of the calls that respects real-time
    precedence and is a legal sequential execution of the map *)
Theorem C03_lin_validator_sound : forall init h order,
  lin_ok init h order = true ->
  exists l, Permutation l h /\ rt_ok l = true /\ seq_legal init l = true.
Proof. exact lin_ok_sound. Qed.
Print Assumptions C03_lin_validator_sound.
