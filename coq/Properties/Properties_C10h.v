(** C10h — the allocator view: "the bytes actually held from the allocator
    equal the reported memory use, and all of it is returned when the index
    is destroyed".  The live multiset of block sizes is maintained operation
    by operation (live := live + op_allocs - op_frees, Art/ArtAlloc.v); the
    statements hold for ALL histories (any keys, any sizes record; a step the
    model refuses with an error changes nothing). *)
From Coq Require Import List ZArith Bool Lia Permutation.
From Unodb Require Import Base.Lex Art.ArtModel Art.ArtIter Art.ArtFault Art.ArtSpec Art.ArtAlloc
  Art.ArtScanSpec Art.ArtAllocProofs.
Import ListNotations.
Local Open Scope Z_scope.

(** after every history no free was refused and the live multiset is the
    multiset of the blocks of the tree (one per leaf, one per inner node) *)
Theorem C10h_live_is_tree : forall sz ops,
  exists live, live_run sz db0 [] ops = Some live /\
               Permutation live (db_blocks sz (run_state sz db0 ops)).
Proof. exact live_is_tree. Qed.
Print Assumptions C10h_live_is_tree.

(** the reported memory use is the number of bytes held *)
Theorem C10h_mem_is_live : forall sz ops,
  exists live, live_run sz db0 [] ops = Some live /\
               mem (st (run_state sz db0 ops)) = zsum live.
Proof. exact mem_is_live. Qed.
Print Assumptions C10h_mem_is_live.

(** whatever operation comes next after whatever history, the sizes it frees
    are a sub-multiset of the live ones (held before, or obtained earlier in
    the same operation); [rest] is what is live afterwards *)
Theorem C10h_frees_were_live : forall sz ops o,
  exists live rest,
    live_run sz db0 [] ops = Some live /\
    Permutation (live ++ op_allocs sz (run_state sz db0 ops) o)
                (op_frees sz (run_state sz db0 ops) o ++ rest) /\
    live_run sz db0 [] (ops ++ [o]) = Some rest.
Proof. exact frees_were_live. Qed.
Print Assumptions C10h_frees_were_live.

(** stronger: they were live BEFORE the operation - no operation returns a
    block it obtained itself (the old node of a growth / shrink, the removed
    leaf, the dissolved N4 all come out of the tree the operation starts from) *)
Theorem C10h_frees_were_live_before : forall sz ops o,
  exists live kept,
    live_run sz db0 [] ops = Some live /\
    Permutation live (op_frees sz (run_state sz db0 ops) o ++ kept).
Proof. exact frees_were_live_before. Qed.
Print Assumptions C10h_frees_were_live_before.

Theorem C10h_clear_returns_all : forall sz ops,
  live_run sz db0 [] (ops ++ [OClear]) = Some [].
Proof. exact clear_returns_all. Qed.
Print Assumptions C10h_clear_returns_all.

(** the destructor frees the blocks of the final tree; that is everything *)
Theorem C10h_destroy_returns_all : forall sz ops,
  exists live, live_run sz db0 [] ops = Some live /\
               free_all (destroy_frees sz (run_state sz db0 ops)) live = Some [].
Proof. exact destroy_returns_all. Qed.
Print Assumptions C10h_destroy_returns_all.

(** a duplicate insert, a remove of an absent key, a refused step, get and
    empty neither allocate nor free, in any state *)
Theorem C10h_noop_neutral : forall sz d live o, no_change sz d o ->
  op_allocs sz d o = [] /\ op_frees sz d o = [] /\ live_step sz d live o = Some live /\
  fst (step sz d o) = d.
Proof. exact noop_neutral. Qed.
Print Assumptions C10h_noop_neutral.

(** the allocation count of C08's fault model is the length of [op_allocs] *)
Theorem C10h_alloc_count_insert : forall sz d k v,
  db_insert_allocs d k v = Ok (length (op_allocs sz d (OInsert k v))) \/
  exists e, db_insert_allocs d k v = Err e /\ op_allocs sz d (OInsert k v) = [].
Proof. exact alloc_count_insert. Qed.
Print Assumptions C10h_alloc_count_insert.

(** ** a history with root leaf, leaf split, growth 4 -> 16, duplicate insert,
    absent remove, shrink 16 -> 4, prefix split, collapse, clear *)
Definition ex_sz : sizes := {| sz_leaf := 11; sz4 := 48; sz16 := 160; sz48 := 672; sz256 := 2064 |}.
Definition ex_key (a b : Z) : list Z := [0; 0; 0; 0; 0; 0; a; b].
Definition ex_h : list op :=
  map (fun i => OInsert (ex_key 1 i) [i]) [1; 2; 3; 4; 5] ++
  [OInsert (ex_key 1 3) [9]; ORemove (ex_key 1 9); ORemove (ex_key 1 5);
   OInsert (ex_key 2 1) [7; 7]; ORemove (ex_key 2 1); OClear].

Fixpoint ex_trace (sz : sizes) (d : db) (ops : list op) : list (list Z * list Z) :=
  match ops with
  | [] => []
  | o :: r => (op_allocs sz d o, op_frees sz d o) :: ex_trace sz (fst (step sz d o)) r
  end.

Example C10h_ex_trace : ex_trace ex_sz db0 ex_h =
  [([20], []); ([20; 48], []); ([20], []); ([20], []);
   ([20; 160], [48]);             (* growth: leaf, N16; the N4 goes *)
   ([], []); ([], []);            (* duplicate insert, absent remove *)
   ([48], [20; 160]);             (* shrink: N4 first; then leaf and N16 go *)
   ([21; 48], []);                (* prefix split *)
   ([], [21; 48]);                (* collapse: leaf and the dissolved N4 *)
   ([], [48; 20; 20; 20; 20])].   (* clear *)
Proof. vm_compute. reflexivity. Qed.

Example C10h_ex_live :
  live_run ex_sz db0 [] (firstn 9 ex_h) = Some [20; 20; 20; 20; 48; 21; 48] /\
  mem (st (run_state ex_sz db0 (firstn 9 ex_h))) = 197 /\
  live_run ex_sz db0 [] ex_h = Some [].
Proof. vm_compute. repeat split. Qed.

(** the hypothesis of [C10h_noop_neutral] holds of a duplicate insert and of a
    remove of an absent key in a state with an inner node, and fails for a
    successful insert *)
Example C10h_ex_no_change :
  let d := run_state ex_sz db0 (firstn 5 ex_h) in
  no_change ex_sz d (OInsert (ex_key 1 3) [9]) /\ no_change ex_sz d (ORemove (ex_key 1 9)) /\
  ~ no_change ex_sz d (OInsert (ex_key 1 9) []).
Proof.
  vm_compute. split; [discriminate|]. split; [discriminate|]. intros H. now apply H.
Qed.

(** a refused free is reported: the same size cannot be returned twice *)
Example C10h_ex_double_free : free_all [48; 48] [20; 48] = None /\ free_all [48] [20; 48] = Some [20].
Proof. vm_compute. split; reflexivity. Qed.
