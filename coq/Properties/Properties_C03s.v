(** C03, writers vs the sequential model on concurrent executions: the oracle of the snapshot check.
    Statements only; each closed by [exact]; [Print Assumptions] beneath. *)
From Coq Require Import List ZArith Bool Lia.
From Unodb Require Import Base.Lex Art.ArtModel Art.ArtIter Art.ArtSpec Art.ArtInv Art.ArtScanSpec Olc.SnapOracle.
Import ListNotations.
Local Open Scope Z_scope.

(** tools/p_olc.py compares the canonical dump of the index at every writer-quiescent moment with the tree the
    extracted model builds by inserting the snapshot's entries into an empty index.  If the index is a well-formed
    tree at that moment (any history, any interleaving of writers), that comparison must succeed: the shape [erase]
    (node classes, prefixes, child bytes, keys, values; leaf identities dropped) of a well-formed tree is the
    shape of the oracle's run, whichever history over keys of the same length the oracle uses. *)
Theorem C03s_snapshot_oracle : forall L sz ops t t', (1 <= L <= 8)%nat -> Forall (op_ok L) ops ->
  root (run_state sz db0 ops) = Some t' ->
  WF L t [] -> kvs (leaves t) = kvs (leaves t') -> erase t = erase t'.
Proof. exact snapshot_oracle_shape. Qed.
Print Assumptions C03s_snapshot_oracle.

Theorem C03s_snapshot_oracle_two_runs : forall L sz1 sz2 ops1 ops2 t1 t2, (1 <= L <= 8)%nat ->
  Forall (op_ok L) ops1 -> Forall (op_ok L) ops2 ->
  root (run_state sz1 db0 ops1) = Some t1 -> root (run_state sz2 db0 ops2) = Some t2 ->
  kvs (leaves t1) = kvs (leaves t2) -> erase t1 = erase t2.
Proof. exact snapshot_oracle_two_runs. Qed.
Print Assumptions C03s_snapshot_oracle_two_runs.

(** non-vacuity, and the comparison discriminates: an 8-operation history (insert, overwrite attempt, remove,
    re-insert: grows to Node16 and shrinks back) and the oracle's four inserts end in different trees (leaf
    identities) of the same shape; the tree a skipped shrink leaves behind (four children in a Node16: same
    entries, same lookup results) has another shape. *)
Example C03s_hypotheses_hold : Forall (op_ok 8) ex_oracle /\ Forall (op_ok 8) ex_history.
Proof. exact ex_ops_ok. Qed.

Example C03s_oracle_discriminates : exists t1 t2,
  root (run_state ex_sz db0 ex_history) = Some t1 /\ root (run_state ex_sz db0 ex_oracle) = Some t2 /\
  kvs (leaves t1) = kvs (leaves t2) /\ t1 <> t2 /\ erase t1 = erase t2 /\
  kvs (leaves ex_unshrunk) = kvs (leaves t2) /\ erase ex_unshrunk <> erase t2.
Proof. exact ex_roots. Qed.
Print Assumptions C03s_oracle_discriminates.
