
val negb : bool -> bool

type nat =
| O
| S of nat

val fst : ('a1 * 'a2) -> 'a1

val snd : ('a1 * 'a2) -> 'a2

val length : 'a1 list -> nat

val app : 'a1 list -> 'a1 list -> 'a1 list

type comparison =
| Eq
| Lt
| Gt

val compOpp : comparison -> comparison

val pred : nat -> nat

val add : nat -> nat -> nat

val eqb : bool -> bool -> bool

module Nat :
 sig
  val eqb : nat -> nat -> bool

  val leb : nat -> nat -> bool

  val ltb : nat -> nat -> bool

  val max : nat -> nat -> nat
 end

val hd : 'a1 -> 'a1 list -> 'a1

val tl : 'a1 list -> 'a1 list

val nth : nat -> 'a1 list -> 'a1 -> 'a1

val nth_error : 'a1 list -> nat -> 'a1 option

val rev : 'a1 list -> 'a1 list

val concat : 'a1 list list -> 'a1 list

val map : ('a1 -> 'a2) -> 'a1 list -> 'a2 list

val flat_map : ('a1 -> 'a2 list) -> 'a1 list -> 'a2 list

val fold_left : ('a1 -> 'a2 -> 'a1) -> 'a2 list -> 'a1 -> 'a1

val fold_right : ('a2 -> 'a1 -> 'a1) -> 'a1 -> 'a2 list -> 'a1

val existsb : ('a1 -> bool) -> 'a1 list -> bool

val forallb : ('a1 -> bool) -> 'a1 list -> bool

val filter : ('a1 -> bool) -> 'a1 list -> 'a1 list

val firstn : nat -> 'a1 list -> 'a1 list

val skipn : nat -> 'a1 list -> 'a1 list

val repeat : 'a1 -> nat -> 'a1 list

type positive =
| XI of positive
| XO of positive
| XH

type z =
| Z0
| Zpos of positive
| Zneg of positive

module Pos :
 sig
  val succ : positive -> positive

  val add : positive -> positive -> positive

  val add_carry : positive -> positive -> positive

  val pred_double : positive -> positive

  val mul : positive -> positive -> positive

  val iter : ('a1 -> 'a1) -> 'a1 -> positive -> 'a1

  val size : positive -> positive

  val compare_cont : comparison -> positive -> positive -> comparison

  val compare : positive -> positive -> comparison

  val eqb : positive -> positive -> bool

  val iter_op : ('a1 -> 'a1 -> 'a1) -> positive -> 'a1 -> 'a1

  val to_nat : positive -> nat

  val of_succ_nat : nat -> positive
 end

module Z :
 sig
  val double : z -> z

  val succ_double : z -> z

  val pred_double : z -> z

  val pos_sub : positive -> positive -> z

  val add : z -> z -> z

  val opp : z -> z

  val succ : z -> z

  val pred : z -> z

  val sub : z -> z -> z

  val mul : z -> z -> z

  val pow_pos : z -> positive -> z

  val pow : z -> z -> z

  val compare : z -> z -> comparison

  val leb : z -> z -> bool

  val ltb : z -> z -> bool

  val eqb : z -> z -> bool

  val to_nat : z -> nat

  val of_nat : nat -> z

  val pos_div_eucl : positive -> z -> z * z

  val div_eucl : z -> z -> z * z

  val div : z -> z -> z

  val modulo : z -> z -> z

  val log2 : z -> z

  val log2_up : z -> z
 end

type ascii =
| Ascii of bool * bool * bool * bool * bool * bool * bool * bool

val eqb0 : ascii -> ascii -> bool

type string =
| EmptyString
| String of ascii * string

val eqb1 : string -> string -> bool

val lex_compare : z list -> z list -> comparison

val lex_ltb : z list -> z list -> bool

val lex_leb : z list -> z list -> bool

val lex_eqb : z list -> z list -> bool

val be_bytes : nat -> z -> z list

val be_value : z list -> z

type ffmt = { fw : z; fm : z }

val f32 : ffmt

val f64 : ffmt

val fbytes : ffmt -> nat

val fmsb : ffmt -> z

val fmax : ffmt -> z

val finf : ffmt -> z

val fqnan : ffmt -> z

val fmag : ffmt -> z -> z

val fneg : ffmt -> z -> bool

val f_is_nan : ffmt -> z -> bool

val f_is_inf : ffmt -> z -> bool

val half : nat -> z

val enc_uint : nat -> z -> z list

val enc_int : nat -> z -> z list

val dec_uint : z list -> z

val dec_int : z list -> z

val enc_float_word : ffmt -> z -> z

val dec_float_word : ffmt -> z -> z

val enc_float : ffmt -> z -> z list

val dec_float : ffmt -> z list -> z

val fcanon : ffmt -> z -> z

val maxlen : z

val strip_trailing_zeros : z list -> z list

val text_norm : z list -> z list

val enc_text : z list -> z list

type cty =
| TU of nat
| TI of nat
| TF of ffmt
| TText

type comp =
| CU of nat * z
| CI of nat * z
| CF of ffmt * z
| CText of z list

val ty_of : comp -> cty

val enc_comp : comp -> z list

val enc_tuple : comp list -> z list

val comp_canon : comp -> comp

val ty_width : cty -> nat option

val take : nat -> z list -> (z list * z list) option

val dec_comp : cty -> z list -> (comp * z list) option

val decode_seq : cty list -> z list -> comp list option

type encst = { e_buf : z list; e_cap : z }

val enc_init : encst

val bit_ceil : z -> z

val ensure_available : encst -> z -> encst

val append : encst -> z list -> encst

type eop =
| EReset
| EEnc of comp

val enc_step : encst -> eop -> encst

val enc_run : encst -> eop list -> encst

type cls =
| C4
| C16
| C48
| C256

type node =
| Leaf of z * z list * z list
| Inode of cls * z list * (z * node) list

val cap : cls -> nat

val min_size : cls -> nat

val larger : cls -> cls

val smaller : cls -> cls

val cls_eqb : cls -> cls -> bool

val prefix_capacity : nat

type err =
| Oob
| OutOfFuel
| Malformed

type 'a res =
| Ok of 'a
| Err of err

val bind : 'a1 res -> ('a1 -> 'a2 res) -> 'a2 res

val byte_at : z list -> nat -> z res

val common_pad : nat -> z list -> z list -> nat

val shared_len : z list -> z list -> nat

val pad8 : z list -> z list

val find_child : (z * node) list -> z -> nat -> (nat * node) option

val count_le : (z * node) list -> z -> nat

val first_ge : (z * node) list -> z -> nat

val insert_pos : cls -> (z * node) list -> z -> nat

val insert_at : nat -> 'a1 -> 'a1 list -> 'a1 list

val remove_nth : nat -> 'a1 list -> 'a1 list

val replace_nth : nat -> 'a1 -> 'a1 list -> 'a1 list

val two_children : z -> node -> z -> node -> (z * node) list

val get_go : nat -> node -> z list -> nat -> (z * z list) option res

type ev =
| ENone
| ERootLeaf
| ELeafSplit
| EPrefixSplit
| EAdd of cls
| EGrow of cls
| ERemoveLeaf of cls
| EShrink of cls
| ERemoveRoot

val insert_go :
  nat -> node -> z list -> z list -> z -> nat -> (node * ev) option res

val prepend_prefix : z list -> z -> node -> node

type rm_result =
| RmNotFound
| RmReplaced of node * ev

val remove_go : nat -> node -> z list -> nat -> rm_result res

type sizes = { sz_leaf : z; sz4 : z; sz16 : z; sz48 : z; sz256 : z }

val sz_of : sizes -> cls -> z

type stats = { n_leaf : z; n_i : (cls -> z); grow : (cls -> z);
               shrink : (cls -> z); splits : z; mem : z }

val upd : (cls -> z) -> cls -> z -> cls -> z

val zero_c : cls -> z

val stats0 : stats

val leaf_size : sizes -> z list -> z list -> z

val stats_insert : sizes -> stats -> ev -> z list -> z list -> stats

val stats_remove : sizes -> stats -> ev -> z list -> z list -> stats

val stats_clear : stats -> stats

type db = { root : node option; next_id : z; st : stats }

val db0 : db

val fuel_for : z list -> nat

val db_get : db -> z list -> (z * z list) option res

val db_insert : sizes -> db -> z list -> z list -> (db * bool) res

val db_remove : sizes -> db -> z list -> (db * bool) res

val db_clear : db -> db

val db_empty : db -> bool

type frame =
| FI of node * nat
| FL of node

type stack = frame list

val children : node -> (z * node) list

val height : node -> nat

val left_most : nat -> node -> stack -> stack res

val right_most : nat -> node -> stack -> stack res

val lm : node -> stack -> stack res

val rm : node -> stack -> stack res

val it_first : node option -> stack res

val it_last : node option -> stack res

val it_next : stack -> stack res

val it_prior : stack -> stack res

val gte_idx : (z * node) list -> z -> nat -> nat option

val lte_idx : (z * node) list -> z -> nat -> nat option

val falloff_fwd : stack -> stack res

val falloff_rev : stack -> stack res

val seek_go :
  bool -> nat -> node -> z list -> nat -> bool -> stack -> (stack * bool) res

val it_seek : node option -> z list -> bool -> (stack * bool) res

val it_seek_pinned : node option -> z list -> bool -> (stack * bool) res

val current : stack -> (z list * z list) option

val size0 : node -> nat

val scan_loop :
  nat -> bool -> (z list -> bool) -> nat option -> stack -> (z list * z list)
  list -> (z list * z list) list res

val scan_fuel : node option -> nat

val db_scan : db -> bool -> nat option -> (z list * z list) list res

val db_scan_from :
  db -> z list -> bool -> nat option -> (z list * z list) list res

val db_scan_range :
  db -> z list -> z list -> nat option -> (z list * z list) list res

val db_scan_from_pinned : db -> z list -> bool -> (z list * z list) list res

val ev_allocs : ev -> nat

val db_insert_allocs : db -> z list -> z list -> nat res

val db_remove_allocs : db -> z list -> nat res

val blocks : sizes -> node -> z list

val db_blocks : sizes -> db -> z list

val ev_ins_allocs : sizes -> ev -> z list -> z list -> z list

val ev_ins_frees : sizes -> ev -> z list

val ev_rem_allocs : sizes -> ev -> z list

val ev_rem_frees : sizes -> ev -> z list -> z list -> z list

val insert_event : db -> z list -> z list -> ev option

val remove_event : db -> z list -> (ev * (z list * z list)) option

val ins_allocs : sizes -> db -> z list -> z list -> z list

val ins_frees : sizes -> db -> z list -> z list -> z list

val rem_allocs : sizes -> db -> z list -> z list

val rem_frees : sizes -> db -> z list -> z list

val live_remove_one : z -> z list -> z list option

val free_all : z list -> z list -> z list option

type tid = nat

val w_is_free : z -> bool

val w_is_obsolete : z -> bool

val w_set_locked : z -> z

val w_obsolete : z

type event =
| ERLock of tid * z
| ESpin of tid
| ECheck of tid * z * z
| EUpgrade of tid * z * bool
| EWUnlock of tid * z
| EWObsolete of tid
| EStore of tid * nat * z
| ELoad of tid * nat * z

type lstate = { lw : z; lmem : z list; guards : tid list }

val linit : nat -> lstate

val set_nth : nat -> z -> z list -> z list

val remove_tid : tid -> tid list -> tid list

val holds : lstate -> tid -> bool

val lstep : lstate -> event -> lstate option

val lrun : lstate -> event list -> lstate option

val lrun_diag : lstate -> event list -> nat -> lstate * nat option

type blk = nat

type gev = blk * event

val project : blk -> gev list -> event list

val node_accepts : (blk * lstate) list -> gev list -> bool

val node_diag : (blk * lstate) list -> gev list -> (blk * nat) option

val held_after : (blk * tid) list -> gev list -> (blk * tid) list

val holds_any : (blk * tid) list -> tid -> bool

val no_wait_while_holding : (blk * tid) list -> gev list -> bool

val olc_trace_ok : (blk * lstate) list -> gev list -> bool

type blk0 = nat

type pev =
| PRLock of blk0 * bool * z
| PCheck of blk0 * bool * z
| PUpgrade of blk0 * bool * z
| PUnlock of blk0
| PObsolete of blk0
| PLoad of blk0
| PStore of blk0
| PAlloc of blk0

val root_blk : blk0

val beq : nat -> nat -> bool

val last_attempt_aux : pev list -> pev list -> pev list

val last_attempt : pev list -> pev list

val validates : blk0 -> pev -> bool

val validated_later : blk0 -> pev list -> bool

type sets = blk0 list * blk0 list

val upd0 : sets -> pev -> sets

val loads_covered : sets -> pev list -> bool

val coupled : pev list -> bool

val held_at_end : pev list -> blk0 list

val allocs : pev list -> blk0 list

val versions_own : (blk0 * z) list -> pev list -> bool

val ptr_validated : sets -> blk0 option -> pev list -> bool

val op_ok : pev list -> bool

val is_failure : pev -> bool

val scan_loads_covered : pev list -> bool

val scan_ok : pev list -> bool

type tid0 = nat

type ptr = z

val ep_adv : z -> z

type thr = { t_reg : bool; t_lsq : z; t_ls : z; t_qs : z; t_prev : ptr list;
             t_cur : ptr list }

val thr0 : thr

type qstate = { q_ep : z; q_T : z; q_P : z; q_oprev : ptr list list;
                q_ocur : ptr list list; q_thr : thr list; q_gep : z;
                q_wait : (ptr * tid0 list) list }

val qinit : nat -> qstate

val get_thr : qstate -> tid0 -> thr

val set_nth_thr : nat -> thr -> thr list -> thr list

val set_thr : qstate -> tid0 -> thr -> qstate

type step_res = qstate * ptr list

val remove_tid0 : tid0 -> tid0 list -> tid0 list

val ghost_passed : (ptr * tid0 list) list -> tid0 -> (ptr * tid0 list) list

val registered_others : thr list -> tid0 -> nat -> tid0 list

val ghost_drop : (ptr * tid0 list) list -> ptr list -> (ptr * tid0 list) list

val with_ghost : qstate -> (ptr * tid0 list) list -> qstate

val exec_prev : thr -> bool -> z -> ptr list -> thr * ptr list

val adv_seen : thr -> bool -> z -> ptr list -> (thr * ptr list) * bool

val handle_orphans :
  qstate -> bool -> (ptr list list * ptr list list) * ptr list

val q_retire : qstate -> tid0 -> ptr -> step_res

val q_quiescent : qstate -> tid0 -> step_res

val push_nonempty : ptr list -> ptr list list -> ptr list list

val q_unregister : qstate -> tid0 -> step_res

val q_register : qstate -> tid0 -> step_res

type qop =
| QRegister of tid0
| QUnregister of tid0
| QQuiescent of tid0
| QRetire of tid0 * ptr

val op_tid : qop -> tid0

val op_enabled : qstate -> qop -> bool

val qstep : qstate -> qop -> step_res

val wait_of : (ptr * tid0 list) list -> ptr -> tid0 list

val pending : qstate -> ptr list

val registered_count : qstate -> z

type sw = { w_ep : z; w_T : z; w_P : z }

val sw_word : sw -> z

val sw_eqb : sw -> sw -> bool

val sw_stm : sw -> bool

val sw_inc_T : sw -> sw

val sw_dec_T : sw -> sw

val sw_inc_TP : sw -> sw

val sw_dec_TP : sw -> sw

val sw_dec_P : sw -> sw

val sw_next_epoch : sw -> sw

type fop =
| OpStart
| OpResume
| OpQuiescent
| OpRetire
| OpPause
| OpExit

val fop_eqb : fop -> fop -> bool

type olist =
| OPrev
| OCur

val olist_eqb : olist -> olist -> bool

type fevent =
| FCall of tid0 * fop * z
| FRet of tid0 * fop
| FLoad of tid0 * z
| FCas of tid0 * z * z
| FFetchSub of tid0 * z
| FSpin of tid0
| FOLoad of tid0 * olist * z
| FOCas of tid0 * olist * z * z
| FOXchg of tid0 * olist * z
| FOMove of tid0 * z * z
| FOAppend of tid0 * z
| FAlloc of tid0 * ptr
| FRetire of tid0 * ptr
| FFree of tid0 * ptr

val ev_tid : fevent -> tid0

type onode = z * ptr list

type uframe = { u_old : sw; u_ecbc : bool; u_qs : z; u_te : z }

type caller =
| CallQ of sw
| CallU of uframe

type pc =
| PIdle
| PRet
| PRegLoad
| PRegCas of sw
| PRegSpin of z
| PRetObs of ptr
| PRetLoad of ptr
| PQLoad
| PRmFsub of caller * z
| PChXPrev of caller * z * bool
| PChXCur of caller * z * bool * onode list
| PChMove of caller * z * onode list
| PChAppend of caller * z * onode list * z
| PChLoad of caller * z
| PChCas of caller * z * sw
| PULoad of uframe
| PUCas of uframe
| POLoad of olist
| POCas of olist * z

type fthr = { ft : thr; ft_pc : pc; ft_op : fop; ft_free : ptr list }

val fthr0 : fthr

type fstate = { f_w : sw; f_oprev : onode list; f_ocur : onode list;
                f_thr : fthr list; f_freed : ptr list; f_gep : z;
                f_wait : (ptr * tid0 list) list;
                f_bad : (ptr * tid0 list) list }

val finit : nat -> z -> fstate

val get_fthr : fstate -> tid0 -> fthr

val set_nth_fthr : nat -> fthr -> fthr list -> fthr list

val set_fthr : fstate -> tid0 -> fthr -> fstate

val set_w : fstate -> sw -> fstate

val get_ol : fstate -> olist -> onode list

val set_ol : fstate -> olist -> onode list -> fstate

val set_wait : fstate -> (ptr * tid0 list) list -> fstate

val bump_gep : fstate -> fstate

val ol_head : onode list -> z

val ol_reqs : onode list -> ptr list

val with_pc : fthr -> pc -> fthr

val upd1 : fthr -> thr -> pc -> ptr list -> fthr

val thr_set_reg : thr -> bool -> thr

val thr_set_lsq_qs : thr -> z -> z -> thr

val thr_set_vec : thr -> olist -> ptr list -> thr

val thr_vec : thr -> olist -> ptr list

val reg_return : fthr -> z -> fthr

val orph_next : thr -> pc

val u_remove_old : uframe -> bool

val u_advance : uframe -> bool

val u_decide : uframe -> pc

val u_desired : uframe -> sw

val u_with_old : uframe -> sw -> uframe

val rm_return : fthr -> caller -> z -> fthr

val append_from : z -> onode list -> onode list -> onode list option

val holds_refs : fthr -> bool

val active_others : fthr list -> tid0 -> nat -> tid0 list

val remove_ptr : ptr -> ptr list -> ptr list

val sees : fstate -> z -> bool

val step_free : fstate -> tid0 -> fthr -> ptr -> fstate option

val step_alloc : fstate -> tid0 -> fthr -> ptr -> fstate option

val set_op : fthr -> fop -> thr -> pc -> fthr

val step_call : fstate -> tid0 -> fthr -> fop -> z -> fstate option

val step_ret : fstate -> tid0 -> fthr -> fop -> fstate option

val step_reg : fstate -> tid0 -> fthr -> fevent -> fstate option

val step_retire : fstate -> tid0 -> fthr -> fevent -> fstate option

val step_q : fstate -> tid0 -> fthr -> fevent -> fstate option

val step_epoch : fstate -> tid0 -> fthr -> fevent -> fstate option

val step_unreg : fstate -> tid0 -> fthr -> fevent -> fstate option

val step_orph : fstate -> tid0 -> fthr -> fevent -> fstate option

val fstep : fstate -> fevent -> fstate option

val frun : fstate -> fevent list -> fstate option

val frun_diag : fstate -> fevent list -> nat -> fstate * nat option

val fbad : fstate -> (ptr * tid0 list) list

val pc_reqs : pc -> ptr list

val fpending : fstate -> ptr list

type lop =
| LGet of z list
| LInsert of z list * z list
| LRemove of z list
| LNext of z list * bool * z list option
| LPrev of z list * bool * z list option

type lres =
| LVal of z list option
| LBool of bool
| LEntry of (z list * z list) option

type call = { c_op : lop; c_res : lres; c_inv : nat; c_ret : nat }

type smap = (z list * z list) list

val s_get : z list -> smap -> z list option

val s_del : z list -> smap -> smap

val in_next : z list -> bool -> z list option -> z list -> bool

val in_prev : z list -> bool -> z list option -> z list -> bool

val s_min : (z list -> bool) -> smap -> (z list * z list) option

val s_max : (z list -> bool) -> smap -> (z list * z list) option

val s_apply : smap -> lop -> smap * lres

val lres_eqb : lres -> lres -> bool

val seq_legal : smap -> call list -> bool

val rt_ok : call list -> bool

val nodupb : nat list -> bool

val pick : call list -> nat list -> call list option

val lin_ok : smap -> call list -> nat list -> bool

type pexpr =
| PArg
| POther
| PSelf
| PExchangeOther
| PInc
| PDec
| PAddN
| PSubN

type pstmt =
| PInit of pexpr
| PSet of pexpr
| PReg
| PUnreg
| PSelfGuard
| PRetSelf
| PCopyToResult
| PCallSelf of string
| PCallResult of string
| PRetResult
| PRetPtr
| PRetDeref
| PRetIndex
| PRetBin of string
| PRetOtherPlusN
| POtherStmt of string

val find_pm : (string * pstmt list) list -> string -> pstmt list option

type oid = nat

type pstate = { vals : (oid * z) list; reg : z list }

val lookup : oid -> (oid * z) list -> z option

val update : oid -> z -> (oid * z) list -> (oid * z) list

val remove_obj : oid -> (oid * z) list -> (oid * z) list

val remove_one : z -> z list -> z list

type pop =
| OpCtorPtr of oid * z
| OpCtorDefault of oid
| OpCtorCopy of oid * oid
| OpCtorMove of oid * oid
| OpAssignCopy of oid * oid
| OpAssignMove of oid * oid
| OpPreInc of oid
| OpPreDec of oid
| OpPostInc of oid * oid
| OpPostDec of oid * oid
| OpAddAssign of oid * z
| OpSubAssign of oid * z
| OpAdd of oid * oid * z
| OpSub of oid * oid * z
| OpDtor of oid

val eval : pexpr -> z -> z -> z -> z

val run :
  (string * pstmt list) list -> nat -> pstmt list -> oid -> oid option -> z
  -> oid -> pstate -> pstate option

val call0 :
  (string * pstmt list) list -> string -> oid -> oid option -> z -> oid ->
  pstate -> pstate option

val pstep : (string * pstmt list) list -> pstate -> pop -> pstate option

val fresh : oid -> pstate -> bool

val live : oid -> pstate -> bool

val pop_ok : pstate -> pop -> bool

val pinit : pstate

val quiescent_allowed : pstate -> bool

val ptr_methods : (string * pstmt list) list
