(** Proofs about the mutex model (Mutex/MutexShape.v, Mutex/MutexModel.v):
    - every non-exempt method of a well-bracketed table executes as one
      complete call of the expected shape;
    - in any admissible interleaving of well-formed threads, a call into the
      wrapped index happens only under the lock, and nobody calls into the
      index while a lock handle returned by get is outstanding. *)
From Coq Require Import List String Bool Arith Lia.
From Unodb Require Import Mutex.MutexShape Mutex.MutexModel.
Import ListNotations.
Local Open Scope list_scope.

(* ------------------------------------------------------------------ *)
(** * Part 1: shapes of single calls *)

(** destruct the variables scrutinised by the [match] in [H] until the
    matched term is pinned completely *)
Ltac pin H :=
  repeat (match type of H with
          | context [match ?x with _ => _ end] =>
              is_var x; destruct x; cbn in H; try discriminate H
          end).

Definition released_call (t : tid) (f : string) : list mev :=
  [Acquire t; Body t f; Release t; Return t false].
Definition holding_call (t : tid) (f : string) : list mev :=
  [Acquire t; Body t f; Return t true].

Lemma guarded_exec : forall tbl t hit b n,
  shape_guarded b = true ->
  exists f, exec_body tbl (S (S (S n))) t hit false b = Some (released_call t f).
Proof.
  intros tbl t hit b n H. unfold shape_guarded in H. pin H.
  - exists f. reflexivity.
  - exists f. reflexivity.
Qed.

Lemma get_exec : forall tbl t hit b n,
  shape_get b = true ->
  exists f, exec_body tbl (S (S (S (S (S n))))) t hit false b =
            Some (if hit then holding_call t f else released_call t f).
Proof.
  intros tbl t hit b n H. unfold shape_get in H. pin H.
  exists f. destruct hit; reflexivity.
Qed.

Lemma guarded_not_get : forall b, shape_guarded b = true -> shape_get b = false.
Proof.
  intros b H. unfold shape_guarded in H. pin H; reflexivity.
Qed.

Lemma guarded_not_delegate_form : forall b,
  shape_guarded b = true ->
  match b with
  | [MLocal; MRetSelf _] | [MRetSelf _] => False
  | _ => True
  end.
Proof.
  intros b H. unfold shape_guarded in H. pin H; exact I.
Qed.

Lemma not_in_released : forall t f, ~ In (Return t true) (released_call t f).
Proof.
  intros t f H. unfold released_call in H. cbn [In] in H.
  destruct H as [H|[H|[H|[H|H]]]]; try discriminate H. exact H.
Qed.

Lemma in_holding : forall t f, In (Return t true) (holding_call t f).
Proof.
  intros t f. unfold holding_call. cbn [In]. right. right. left. reflexivity.
Qed.

(** the conclusion for a body (of the method itself or of its delegate) that is guarded *)
Lemma concl_released : forall t hit f (ho : bool),
  ho = false ->
  call_shape t (released_call t f) /\
  (In (Return t true) (released_call t f) <-> ho = true /\ hit = true).
Proof.
  intros t hit f ho Hho. split.
  - left. exists f. reflexivity.
  - split.
    + intros H. exfalso. exact (not_in_released t f H).
    + intros [H _]. rewrite Hho in H. discriminate H.
Qed.

Lemma concl_get : forall t (hit : bool) f (ho : bool),
  ho = true ->
  call_shape t (if hit then holding_call t f else released_call t f) /\
  (In (Return t true) (if hit then holding_call t f else released_call t f) <-> ho = true /\ hit = true).
Proof.
  intros t hit f ho Hho. destruct hit.
  - split.
    + right. exists f. reflexivity.
    + split.
      * intros _. split; [exact Hho | reflexivity].
      * intros _. apply in_holding.
  - split.
    + left. exists f. reflexivity.
    + split.
      * intros H. exfalso. exact (not_in_released t f H).
      * intros [_ H]. discriminate H.
Qed.

(** one-step unfoldings for the delegate forms; stated with a variable fuel
    so that nothing unfolds the callee's execution *)
Lemma exec_retself : forall tbl n t hit f,
  exec_body tbl (S n) t hit false [MRetSelf f] =
  match find_method tbl f with
  | Some m => exec_body tbl n t hit false (m_body m)
  | None => None
  end.
Proof. reflexivity. Qed.

Lemma exec_local_retself : forall tbl n t hit f,
  exec_body tbl (S (S n)) t hit false [MLocal; MRetSelf f] =
  match find_method tbl f with
  | Some m => exec_body tbl n t hit false (m_body m)
  | None => None
  end.
Proof. reflexivity. Qed.

Theorem call_shape_of_well_bracketed : forall tbl m t hit,
  well_bracketed tbl = true -> In m tbl -> exempt m = false ->
  exists l, exec_method tbl t hit m = Some l /\ call_shape t l /\
            (In (Return t true) l <-> hands_out_lock tbl m = true /\ hit = true).
Proof.
  intros tbl m t hit Hwb Hin Hex.
  unfold well_bracketed in Hwb. rewrite forallb_forall in Hwb.
  specialize (Hwb m Hin). unfold method_ok in Hwb. rewrite Hex in Hwb.
  cbn [orb] in Hwb.
  unfold exec_method, hands_out_lock.
  destruct (shape_guarded (m_body m)) eqn:Hg.
  { (* guarded *)
    destruct (guarded_exec tbl t hit (m_body m) 5 Hg) as [f Hf].
    exists (released_call t f). split; [exact Hf|].
    apply concl_released.
    rewrite (guarded_not_get _ Hg). cbn [orb].
    pose proof (guarded_not_delegate_form _ Hg) as Hnd.
    destruct (m_body m) as [|s1 [|s2 [|s3 b3]]]; try reflexivity;
      destruct s1; try reflexivity; try (exfalso; exact Hnd);
      destruct s2; try reflexivity; exfalso; exact Hnd. }
  destruct (shape_get (m_body m)) eqn:Hget.
  { (* get *)
    destruct (get_exec tbl t hit (m_body m) 3 Hget) as [f Hf].
    eexists. split; [exact Hf|].
    apply concl_get. reflexivity. }
  (* delegate *)
  cbn [orb] in Hwb. unfold shape_delegate in Hwb.
  destruct (m_body m) as [|s1 [|s2 [|s3 b3]]]; try discriminate Hwb.
  - (* [MRetSelf f] *)
    destruct s1; try discriminate Hwb.
    destruct (find_method tbl f) as [m'|] eqn:Hfind; [|discriminate Hwb].
    rewrite (exec_retself tbl 7). rewrite Hfind.
    destruct (shape_guarded (m_body m')) eqn:Hg'.
    + destruct (guarded_exec tbl t hit (m_body m') 4 Hg') as [g Hf].
      exists (released_call t g). split; [exact Hf|].
      apply concl_released. rewrite (guarded_not_get _ Hg'). reflexivity.
    + cbn [orb] in Hwb.
      destruct (get_exec tbl t hit (m_body m') 2 Hwb) as [g Hf].
      eexists. split; [exact Hf|].
      apply concl_get. rewrite Hwb. reflexivity.
  - (* [MLocal; MRetSelf f] *)
    destruct s1; try discriminate Hwb.
    destruct s2; try discriminate Hwb.
    destruct (find_method tbl f) as [m'|] eqn:Hfind; [|discriminate Hwb].
    rewrite (exec_local_retself tbl 6). rewrite Hfind.
    destruct (shape_guarded (m_body m')) eqn:Hg'.
    + destruct (guarded_exec tbl t hit (m_body m') 3 Hg') as [g Hf].
      exists (released_call t g). split; [exact Hf|].
      apply concl_released. rewrite (guarded_not_get _ Hg'). reflexivity.
    + cbn [orb] in Hwb.
      destruct (get_exec tbl t hit (m_body m') 1 Hwb) as [g Hf].
      eexists. split; [exact Hf|].
      apply concl_get. rewrite Hwb. reflexivity.
  - exfalso. destruct s1; try discriminate Hwb. destruct s2; discriminate Hwb.
Qed.

(* ------------------------------------------------------------------ *)
(** * Part 2: interleavings *)

(** ** The per-thread automaton behind [thread_wf] *)

Inductive phase := PIdle | PAcq | PBody | PRel | PHeld | PBad.

Definition step (s : phase) (e : mev) : phase :=
  match s, e with
  | PIdle, Acquire _ => PAcq
  | PAcq, Body _ _ => PBody
  | PBody, Release _ => PRel
  | PBody, Return _ true => PHeld
  | PRel, Return _ false => PIdle
  | PHeld, HandleRelease _ => PIdle
  | _, _ => PBad
  end.

Fixpoint run (s : phase) (l : list mev) : phase :=
  match l with
  | [] => s
  | e :: l' => run (step s e) l'
  end.

(** the thread owns the mutex in these phases *)
Definition holding (s : phase) : bool :=
  match s with PAcq | PBody | PHeld => true | _ => false end.

Lemma run_app : forall l1 l2 s, run s (l1 ++ l2) = run (run s l1) l2.
Proof.
  induction l1 as [|e l1 IH]; intros l2 s.
  - reflexivity.
  - cbn [app run]. apply IH.
Qed.

Lemma run_bad : forall l, run PBad l = PBad.
Proof.
  induction l as [|e l IH].
  - reflexivity.
  - cbn [run]. exact IH.
Qed.

Lemma run_prefix_ok : forall l1 l2 s, run s (l1 ++ l2) <> PBad -> run s l1 <> PBad.
Proof.
  intros l1 l2 s H Hb. apply H. rewrite run_app, Hb. apply run_bad.
Qed.

Lemma thread_wf_run_len : forall t n l,
  List.length l <= n -> thread_wf t l = true -> run PIdle l <> PBad.
Proof.
  intros t. induction n as [|n IH]; intros l Hlen Hwf.
  - destruct l; [cbn; discriminate | cbn in Hlen; lia].
  - destruct l as [|e1 l1]; [cbn; discriminate|].
    destruct e1; try discriminate Hwf.
    cbn [thread_wf] in Hwf. apply andb_true_iff in Hwf. destruct Hwf as [_ Hwf].
    destruct l1 as [|e2 l2]; [cbn; discriminate|].
    destruct e2; try discriminate Hwf.
    apply andb_true_iff in Hwf. destruct Hwf as [_ Hwf].
    destruct l2 as [|e3 l3]; [cbn; discriminate|].
    destruct e3; try discriminate Hwf.
    + (* Release *)
      apply andb_true_iff in Hwf. destruct Hwf as [_ Hwf].
      destruct l3 as [|e4 l4]; [cbn; discriminate|].
      destruct e4; try discriminate Hwf.
      destruct holding0; try discriminate Hwf.
      apply andb_true_iff in Hwf. destruct Hwf as [_ Hwf].
      cbn [run step]. apply IH; [|exact Hwf].
      cbn [List.length] in Hlen. lia.
    + (* Return true *)
      destruct holding0; try discriminate Hwf.
      apply andb_true_iff in Hwf. destruct Hwf as [_ Hwf].
      destruct l3 as [|e4 l4]; [cbn; discriminate|].
      destruct e4; try discriminate Hwf.
      apply andb_true_iff in Hwf. destruct Hwf as [_ Hwf].
      cbn [run step]. apply IH; [|exact Hwf].
      cbn [List.length] in Hlen. lia.
Qed.

Lemma thread_wf_run : forall t l, thread_wf t l = true -> run PIdle l <> PBad.
Proof.
  intros t l. apply (thread_wf_run_len t (List.length l)). apply le_n.
Qed.

(** ** Events and threads *)

Definition ev_tid (e : mev) : tid :=
  match e with
  | Acquire u | Body u _ | Release u | Return u _ | HandleRelease u => u
  end.

Lemma thread_events_app : forall t p r,
  thread_events t (p ++ r) = thread_events t p ++ thread_events t r.
Proof.
  intros t p r. unfold thread_events. apply filter_app.
Qed.

Lemma thread_events_one : forall t e,
  thread_events t [e] = if Nat.eqb (ev_tid e) t then [e] else [].
Proof.
  intros t e. destruct e; reflexivity.
Qed.

(** the phase of thread [u] after the events [p] *)
Definition phase_of (u : tid) (p : list mev) : phase := run PIdle (thread_events u p).

Lemma phase_of_snoc : forall u p e,
  phase_of u (p ++ [e]) =
  if Nat.eqb (ev_tid e) u then step (phase_of u p) e else phase_of u p.
Proof.
  intros u p e. unfold phase_of.
  rewrite thread_events_app, run_app, thread_events_one.
  destruct (Nat.eqb (ev_tid e) u); reflexivity.
Qed.

Lemma phase_of_prefix_ok : forall u p r,
  phase_of u (p ++ r) <> PBad -> phase_of u p <> PBad.
Proof.
  intros u p r. unfold phase_of. rewrite thread_events_app. apply run_prefix_ok.
Qed.

(** ** The mutex *)

Lemma mutex_ok_app : forall p r h,
  mutex_ok h (p ++ r) = true ->
  mutex_ok h p = true /\ mutex_ok (holder_after h p) r = true.
Proof.
  induction p as [|e p IH]; intros r h H.
  - split; [reflexivity | exact H].
  - destruct e; cbn [app mutex_ok holder_after] in *.
    + destruct h; [discriminate H | apply IH; exact H].
    + apply IH; exact H.
    + destruct h as [h|]; [|discriminate H].
      apply andb_true_iff in H. destruct H as [Hh H]. rewrite Hh. cbn [andb].
      apply IH; exact H.
    + apply IH; exact H.
    + destruct h as [h|]; [|discriminate H].
      apply andb_true_iff in H. destruct H as [Hh H]. rewrite Hh. cbn [andb].
      apply IH; exact H.
Qed.

Lemma holder_after_app : forall p r h,
  holder_after h (p ++ r) = holder_after (holder_after h p) r.
Proof.
  induction p as [|e p IH]; intros r h.
  - reflexivity.
  - destruct e; cbn [app holder_after]; apply IH.
Qed.

(** ** The invariant: a thread is in a holding phase iff it is the holder *)

Lemma inv_step : forall (ph : tid -> phase) (h : option tid) (e : mev),
  (forall u, holding (ph u) = true <-> h = Some u) ->
  mutex_ok h [e] = true ->
  (forall u, (if Nat.eqb (ev_tid e) u then step (ph u) e else ph u) <> PBad) ->
  forall u, holding (if Nat.eqb (ev_tid e) u then step (ph u) e else ph u) = true
            <-> holder_after h [e] = Some u.
Proof.
  intros ph h e Hinv Hm Hok u.
  specialize (Hok u). specialize (Hinv u).
  destruct e as [a|b f|c|d hd|d]; cbn [ev_tid mutex_ok holder_after] in *.
  - (* Acquire a *)
    destruct h as [h|]; [discriminate Hm|].
    destruct (Nat.eqb_spec a u) as [E|NE].
    + subst a. destruct (ph u); cbn in *; try (exfalso; apply Hok; reflexivity).
      split; reflexivity.
    + split; intros H.
      * apply Hinv in H. discriminate H.
      * inversion H. contradiction.
  - (* Body *)
    destruct (Nat.eqb_spec b u) as [E|NE]; [|exact Hinv].
    subst b. destruct (ph u); cbn in *; try (exfalso; apply Hok; reflexivity).
    exact Hinv.
  - (* Release *)
    destruct h as [h|]; [|discriminate Hm].
    apply andb_true_iff in Hm. destruct Hm as [Hh _]. apply Nat.eqb_eq in Hh. subst h.
    destruct (Nat.eqb_spec c u) as [E|NE].
    + subst c. destruct (ph u); cbn in *; try (exfalso; apply Hok; reflexivity).
      split; intros H; discriminate H.
    + split; intros H.
      * apply Hinv in H. inversion H. contradiction.
      * discriminate H.
  - (* Return *)
    destruct (Nat.eqb_spec d u) as [E|NE]; [|exact Hinv].
    subst d. destruct (ph u); destruct hd; cbn in *; try (exfalso; apply Hok; reflexivity).
    + exact Hinv.
    + exact Hinv.
  - (* HandleRelease *)
    destruct h as [h|]; [|discriminate Hm].
    apply andb_true_iff in Hm. destruct Hm as [Hh _]. apply Nat.eqb_eq in Hh. subst h.
    destruct (Nat.eqb_spec d u) as [E|NE].
    + subst d. destruct (ph u); cbn in *; try (exfalso; apply Hok; reflexivity).
      split; intros H; discriminate H.
    + split; intros H.
      * apply Hinv in H. inversion H. contradiction.
      * discriminate H.
Qed.

Definition good (p : list mev) : Prop :=
  mutex_ok None p = true /\ forall u, phase_of u p <> PBad.

Lemma good_prefix : forall p r, good (p ++ r) -> good p.
Proof.
  intros p r [Hm Hp]. split.
  - apply (mutex_ok_app p r None). exact Hm.
  - intros u. apply (phase_of_prefix_ok u p r). apply Hp.
Qed.

Lemma good_of_hyps : forall tr,
  mutex_ok None tr = true -> (forall u, thread_wf u (thread_events u tr) = true) -> good tr.
Proof.
  intros tr Hm Hwf. split; [exact Hm|].
  intros u. unfold phase_of. apply (thread_wf_run u). apply Hwf.
Qed.

Lemma holder_inv : forall p, good p ->
  forall u, holding (phase_of u p) = true <-> holder_after None p = Some u.
Proof.
  induction p as [|e p IH] using rev_ind; intros Hg u.
  - cbn. split; intros H; discriminate H.
  - pose proof (good_prefix p [e] Hg) as Hgp.
    specialize (IH Hgp).
    destruct Hg as [Hm Hp].
    apply mutex_ok_app in Hm. destruct Hm as [_ Hm].
    rewrite holder_after_app, phase_of_snoc.
    apply (inv_step (fun v => phase_of v p) (holder_after None p) e IH Hm).
    intros v. rewrite <- phase_of_snoc. apply Hp.
Qed.

(** a thread about to run [Body] has just acquired *)
Lemma phase_before_body : forall p t f,
  phase_of t (p ++ [Body t f]) <> PBad -> phase_of t p = PAcq.
Proof.
  intros p t f H. rewrite phase_of_snoc in H. cbn [ev_tid] in H.
  rewrite Nat.eqb_refl in H.
  destruct (phase_of t p); cbn in H; try (exfalso; apply H; reflexivity).
  reflexivity.
Qed.

Lemma cons_app_one : forall (A : Type) (p : list A) (e : A) (r : list A),
  p ++ e :: r = (p ++ [e]) ++ r.
Proof.
  intros A p e r. rewrite <- app_assoc. reflexivity.
Qed.

Theorem body_under_lock : forall tr p t f r,
  mutex_ok None tr = true -> (forall u, thread_wf u (thread_events u tr) = true) ->
  tr = p ++ Body t f :: r -> holder_after None p = Some t.
Proof.
  intros tr p t f r Hm Hwf Htr.
  pose proof (good_of_hyps tr Hm Hwf) as Hg.
  rewrite Htr, cons_app_one in Hg.
  apply good_prefix in Hg.
  pose proof (good_prefix _ _ Hg) as Hgp.
  apply (holder_inv p Hgp t).
  destruct Hg as [_ Hp].
  rewrite (phase_before_body p t f (Hp t)). reflexivity.
Qed.

(** after [Return t true] thread [t] stays in phase [PHeld] until its [HandleRelease] *)
Lemma held_until_release : forall p t q,
  good (p ++ Return t true :: q) -> ~ In (HandleRelease t) q ->
  phase_of t (p ++ Return t true :: q) = PHeld.
Proof.
  intros p t. induction q as [|e q IH] using rev_ind; intros Hg Hni.
  - destruct Hg as [_ Hp]. specialize (Hp t).
    rewrite phase_of_snoc in *. cbn [ev_tid] in *. rewrite Nat.eqb_refl in *.
    destruct (phase_of t p); cbn in *; try (exfalso; apply Hp; reflexivity).
    reflexivity.
  - assert (Heq : p ++ Return t true :: q ++ [e] = (p ++ Return t true :: q) ++ [e]).
    { rewrite <- app_assoc. reflexivity. }
    rewrite Heq in *.
    assert (IH' : phase_of t (p ++ Return t true :: q) = PHeld).
    { apply IH.
      - exact (good_prefix _ _ Hg).
      - intros Hin. apply Hni. apply in_or_app. left. exact Hin. }
    destruct Hg as [_ Hp]. specialize (Hp t).
    rewrite phase_of_snoc in *. rewrite IH' in *.
    destruct (Nat.eqb_spec (ev_tid e) t) as [E|NE]; [|reflexivity].
    destruct e; cbn in *; try (exfalso; apply Hp; reflexivity).
    exfalso. apply Hni. apply in_or_app. right. subst. left. reflexivity.
Qed.

(** the hypotheses of [pinned_while_handle_held] are in fact contradictory:
    nobody, not even [t], calls into the index while the handle is held *)
Theorem no_body_while_handle_held : forall tr p t q u f r,
  mutex_ok None tr = true -> (forall v, thread_wf v (thread_events v tr) = true) ->
  tr = p ++ Return t true :: q ++ Body u f :: r -> ~ In (HandleRelease t) q -> False.
Proof.
  intros tr p t q u f r Hm Hwf Htr Hni.
  pose proof (good_of_hyps tr Hm Hwf) as Hg.
  assert (Heq : tr = ((p ++ Return t true :: q) ++ [Body u f]) ++ r).
  { rewrite Htr. rewrite <- !app_assoc. reflexivity. }
  rewrite Heq in Hg. apply good_prefix in Hg.
  pose proof (good_prefix _ _ Hg) as Hgp.
  pose proof (held_until_release p t q Hgp Hni) as Ht.
  destruct Hg as [_ Hp].
  pose proof (phase_before_body _ u f (Hp u)) as Hu.
  pose proof (holder_inv _ Hgp) as Hinv.
  assert (H1 : holder_after None (p ++ Return t true :: q) = Some t).
  { apply Hinv. rewrite Ht. reflexivity. }
  assert (H2 : holder_after None (p ++ Return t true :: q) = Some u).
  { apply Hinv. rewrite Hu. reflexivity. }
  rewrite H1 in H2. inversion H2. subst u.
  rewrite Ht in Hu. discriminate Hu.
Qed.

Theorem pinned_while_handle_held : forall tr p t q u f r,
  mutex_ok None tr = true -> (forall v, thread_wf v (thread_events v tr) = true) ->
  tr = p ++ Return t true :: q ++ Body u f :: r -> ~ In (HandleRelease t) q -> u = t.
Proof.
  intros tr p t q u f r Hm Hwf Htr Hni.
  exfalso. exact (no_body_while_handle_held tr p t q u f r Hm Hwf Htr Hni).
Qed.

(** the non-vacuous content behind the previous two: while the handle is
    outstanding the mutex stays held by [t] *)
Theorem holder_while_handle_held : forall tr p t q r,
  mutex_ok None tr = true -> (forall v, thread_wf v (thread_events v tr) = true) ->
  tr = p ++ Return t true :: q ++ r -> ~ In (HandleRelease t) q ->
  holder_after None (p ++ Return t true :: q) = Some t.
Proof.
  intros tr p t q r Hm Hwf Htr Hni.
  pose proof (good_of_hyps tr Hm Hwf) as Hg.
  assert (Heq : tr = (p ++ Return t true :: q) ++ r).
  { rewrite Htr. rewrite <- app_assoc. reflexivity. }
  rewrite Heq in Hg. apply good_prefix in Hg.
  apply (holder_inv _ Hg t).
  rewrite (held_until_release p t q Hg Hni). reflexivity.
Qed.
