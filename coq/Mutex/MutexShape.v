(** The statement language into which tools/shape2v.py abstracts the methods
    of unodb::mutex_db (mutex_art.hpp), and the boolean shape predicate.
    Definitions only. *)
From Coq Require Import List String Bool.
Import ListNotations.
Local Open Scope string_scope.
Local Open Scope list_scope.

Inductive mstmt :=
| MLockGuard                 (* const std::lock_guard guard{mutex}; *)
| MUniqueLock                (* std::unique_lock guard{mutex}; *)
| MLetCall (f : string)      (* const auto r{db_.f(..)}; *)
| MCall (f : string)         (* db_.f(..); *)
| MRetCall (f : string)      (* return db_.f(..); *)
| MRetSelf (f : string)      (* return f(..);  -- a method of mutex_db itself *)
| MIfMiss (body : list mstmt) (* if (!r) { .. } *)
| MUnlock                    (* guard.unlock(); *)
| MRetEmptyLock              (* return make_pair(r, unique_lock{}); *)
| MRetMoveLock               (* return make_pair(r, std::move(guard)); *)
| MLocal                     (* a local that touches neither db_ nor the mutex *)
| MRetVoid
| MRetValue                  (* return of an expression touching neither db_ nor the mutex *)
| MOther (d : string).       (* anything else *)

Record mmethod := { m_name : string; m_public : bool; m_static : bool; m_body : list mstmt }.

(** lock held for the whole duration, exactly one call into the wrapped index *)
Definition shape_guarded (b : list mstmt) : bool :=
  match b with
  | [MLockGuard; MCall _] | [MLockGuard; MRetCall _] => true
  | _ => false
  end.

(** get: the lock is handed to the caller exactly on a hit *)
Definition shape_get (b : list mstmt) : bool :=
  match b with
  | [MUniqueLock; MLetCall _; MIfMiss [MUnlock; MRetEmptyLock]; MRetMoveLock] => true
  | _ => false
  end.

Fixpoint find_method (tbl : list mmethod) (f : string) : option mmethod :=
  match tbl with
  | [] => None
  | m :: tbl' => if String.eqb (m_name m) f then Some m else find_method tbl' f
  end.

Definition shape_delegate (tbl : list mmethod) (b : list mstmt) : bool :=
  match b with
  | [MLocal; MRetSelf f] | [MRetSelf f] =>
      match find_method tbl f with
      | Some m => shape_guarded (m_body m) || shape_get (m_body m)
      | None => false
      end
  | _ => false
  end.

(** not index operations: the static helper and the explicitly test-only accessor *)
Definition exempt (m : mmethod) : bool := m_static m || String.eqb (m_name m) "test_only_iterator".

Definition method_ok (tbl : list mmethod) (m : mmethod) : bool :=
  exempt m || shape_guarded (m_body m) || shape_get (m_body m) || shape_delegate tbl (m_body m).

Definition well_bracketed (tbl : list mmethod) : bool := forallb (method_ok tbl) tbl.

(** only get may hand the lock out *)
Definition hands_out_lock (tbl : list mmethod) (m : mmethod) : bool :=
  shape_get (m_body m) ||
  match m_body m with
  | [MLocal; MRetSelf f] | [MRetSelf f] =>
      match find_method tbl f with Some m' => shape_get (m_body m') | None => false end
  | _ => false
  end.
