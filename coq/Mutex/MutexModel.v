(** M-MUTEX: what a call of a mutex_db method does with the mutex, as a
    sequence of events, and the interleavings a mutex admits.  Definitions only. *)
From Coq Require Import List String Bool.
From Unodb Require Import Mutex.MutexShape.
Import ListNotations.
Local Open Scope string_scope.
Local Open Scope list_scope.

Definition tid := nat.

Inductive mev :=
| Acquire (t : tid)            (* mutex locked by t *)
| Body (t : tid) (f : string)  (* t runs db_.f *)
| Release (t : tid)            (* mutex unlocked by t (guard destructor or unlock()) *)
| Return (t : tid) (holding : bool)   (* the method returns; holding = the caller now owns the lock *)
| HandleRelease (t : tid).     (* the caller lets go of the lock handle returned by get *)

(** Events of one call by thread t.  [hit]: whether the lookup found the key
    (only matters for the get shape).  [owns]: does a unique_lock / lock_guard
    of this frame currently own the mutex (released by its destructor at return). *)
Fixpoint exec_body (tbl : list mmethod) (fuel : nat) (t : tid) (hit : bool) (owns : bool) (b : list mstmt)
  : option (list mev) :=
  match fuel with
  | O => None
  | S fuel' =>
      match b with
      | [] => Some ((if owns then [Release t] else []) ++ [Return t false])
      | s :: b' =>
          match s with
          | MLockGuard | MUniqueLock =>
              if owns then None else option_map (cons (Acquire t)) (exec_body tbl fuel' t hit true b')
          | MLetCall f | MCall f => option_map (cons (Body t f)) (exec_body tbl fuel' t hit owns b')
          | MRetCall f => Some (Body t f :: (if owns then [Release t] else []) ++ [Return t false])
          | MRetSelf f =>
              match find_method tbl f with
              | Some m =>
                  (* the callee's events; this frame owns nothing, otherwise the callee would self-deadlock *)
                  if owns then None else exec_body tbl fuel' t hit false (m_body m)
              | None => None
              end
          | MIfMiss inner =>
              if hit then exec_body tbl fuel' t hit owns b'
              else exec_body tbl fuel' t hit owns inner
          | MUnlock => if owns then option_map (cons (Release t)) (exec_body tbl fuel' t hit false b') else None
          | MRetEmptyLock => Some ((if owns then [Release t] else []) ++ [Return t false])
          | MRetMoveLock => if owns then Some [Return t true] else None
          | MLocal => exec_body tbl fuel' t hit owns b'
          | MRetVoid | MRetValue => Some ((if owns then [Release t] else []) ++ [Return t false])
          | MOther _ => None
          end
      end
  end.

Definition exec_method (tbl : list mmethod) (t : tid) (hit : bool) (m : mmethod) : option (list mev) :=
  exec_body tbl 8 t hit false (m_body m).

(** the mutex: an interleaved event sequence is admissible iff Acquire
    happens only when nobody holds it and Release / HandleRelease only by the holder *)
Fixpoint mutex_ok (holder : option tid) (tr : list mev) : bool :=
  match tr with
  | [] => true
  | Acquire t :: tr' => match holder with None => mutex_ok (Some t) tr' | Some _ => false end
  | Release t :: tr' | HandleRelease t :: tr' =>
      match holder with Some h => Nat.eqb h t && mutex_ok None tr' | None => false end
  | _ :: tr' => mutex_ok holder tr'
  end.

(** the holder after a prefix *)
Fixpoint holder_after (holder : option tid) (tr : list mev) : option tid :=
  match tr with
  | [] => holder
  | Acquire t :: tr' => holder_after (Some t) tr'
  | Release _ :: tr' | HandleRelease _ :: tr' => holder_after None tr'
  | _ :: tr' => holder_after holder tr'
  end.

Definition thread_events (t : tid) (tr : list mev) : list mev :=
  filter (fun e => match e with
                   | Acquire u | Body u _ | Release u | Return u _ | HandleRelease u => Nat.eqb u t
                   end) tr.

(** what one complete call of a well-formed index operation looks like *)
Definition call_shape (t : tid) (l : list mev) : Prop :=
  (exists f, l = [Acquire t; Body t f; Release t; Return t false]) \/
  (exists f, l = [Acquire t; Body t f; Return t true]).

(** the events of one thread form a sequence of complete calls, a handle
    release after each call that returned holding the lock, possibly followed
    by an unfinished call *)
Fixpoint thread_wf (t : tid) (l : list mev) : bool :=
  match l with
  | [] => true
  | Acquire a :: l1 =>
      Nat.eqb a t &&
      match l1 with
      | [] => true
      | Body b _ :: l2 =>
          Nat.eqb b t &&
          match l2 with
          | [] => true
          | Release c :: l3 =>
              Nat.eqb c t &&
              match l3 with
              | [] => true
              | Return d false :: l4 => Nat.eqb d t && thread_wf t l4
              | _ => false
              end
          | Return c true :: l3 =>
              Nat.eqb c t &&
              match l3 with
              | [] => true
              | HandleRelease d :: l4 => Nat.eqb d t && thread_wf t l4
              | _ => false
              end
          | _ => false
          end
      | _ => false
      end
  | _ => false
  end.
