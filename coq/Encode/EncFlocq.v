(** Link between the bit-pattern float order of the key encoder
    ([ftotal_lt], Encode/EncModel.v) and the IEEE-754 semantics of Flocq
    ([Bcompare], [is_nan], [is_finite], [B2R] on [b32_of_bits] / [b64_of_bits]).

    Layout:
    - Section [Gen]: everything for an arbitrary format with [mw] fraction bits
      and [ew] exponent bits, stated on the computational core
      [FF2SF (binary_float_of_bits_aux mw ew x)] (no dependent validity proof,
      hence closed under the global context), then lifted to [binary_float_of_bits].
    - Instances for binary32 (23, 8) and binary64 (52, 11).
    - Corollaries with [enc_float_order] and with the reals ([B2R]). *)
From Coq Require Import ZArith Bool Lia List Reals SpecFloat.
From Flocq Require Import Core.Core IEEE754.BinarySingleNaN IEEE754.Binary IEEE754.Bits.
From Unodb Require Import Base.Lex Base.Bytes Base.FloatBits Encode.EncModel Encode.EncOrder.
Local Open Scope Z_scope.

(** Comparison of two sign-magnitude numbers (sign bit, magnitude word), the
    two zeros being equal: this is what IEEE comparison computes on non-NaN data. *)
Definition cmp_sm (s1 : bool) (a1 : Z) (s2 : bool) (a2 : Z) : comparison :=
  match s1, s2 with
  | false, false => a1 ?= a2
  | true, true => a2 ?= a1
  | true, false => if (a1 =? 0) && (a2 =? 0) then Eq else Lt
  | false, true => if (a1 =? 0) && (a2 =? 0) then Eq else Gt
  end.

Section Gen.

Variables mw ew : Z.
Hypothesis Hmw : 0 < mw.
Hypothesis Hew : 0 < ew.

Local Notation M := (2 ^ mw).
Local Notation E := (2 ^ ew).
Local Notation prec := (mw + 1).
Local Notation emax := (2 ^ (ew - 1)).
Local Notation emn := (SpecFloat.emin prec emax).

(** The encoder-side format with the same field widths. *)
Definition gfmt : ffmt := {| fw := mw + ew + 1; fm := mw |}.
Local Notation F := gfmt.

Definition sgn (x : Z) : bool := M * E <=? x.
Definition man (x : Z) : Z := x mod M.
Definition expo (x : Z) : Z := (x / M) mod E.

Lemma M_pos : 0 < M. Proof. apply Z.pow_pos_nonneg; lia. Qed.
Lemma E_ge2 : 2 <= E.
Proof. change 2 with (2 ^ 1) at 1. apply Z.pow_le_mono_r; lia. Qed.

Lemma man_range x : 0 <= man x < M.
Proof. apply Z.mod_pos_bound, M_pos. Qed.
Lemma expo_range x : 0 <= expo x < E.
Proof. apply Z.mod_pos_bound. pose proof E_ge2; lia. Qed.

Lemma split_bits_eq x : split_bits mw ew x = (sgn x, man x, expo x).
Proof. reflexivity. Qed.

Lemma fmsb_F : fmsb F = M * E.
Proof.
  unfold fmsb; cbn [fw gfmt]. replace (mw + ew + 1 - 1) with (mw + ew) by ring.
  apply Z.pow_add_r; lia.
Qed.

Lemma finf_F : finf F = (E - 1) * M.
Proof.
  unfold finf; cbn [fw fm gfmt]. now replace (mw + ew + 1 - 1 - mw) with ew by ring.
Qed.

Lemma fmag_F x : fmag F x = expo x * M + man x.
Proof.
  unfold fmag, expo, man. rewrite fmsb_F.
  pose proof M_pos. pose proof E_ge2.
  rewrite Z.rem_mul_r by lia. ring.
Qed.

Lemma fneg_F x : fneg F x = sgn x.
Proof. unfold fneg. now rewrite fmsb_F. Qed.

Lemma fmag_F_nonneg x : 0 <= fmag F x.
Proof.
  rewrite fmag_F. pose proof (man_range x). pose proof (expo_range x). pose proof M_pos. nia.
Qed.

Lemma f_is_nan_F x : f_is_nan F x = (expo x =? E - 1) && negb (man x =? 0).
Proof.
  unfold f_is_nan. rewrite finf_F, fmag_F.
  pose proof (man_range x). pose proof (expo_range x). pose proof M_pos.
  destruct (Z.eqb_spec (expo x) (E - 1)) as [e|n]; destruct (Z.eqb_spec (man x) 0) as [e'|n']; cbn [andb negb].
  - rewrite e, e'. apply Z.ltb_ge; lia.
  - rewrite e. apply Z.ltb_lt; lia.
  - apply Z.ltb_ge; nia.
  - apply Z.ltb_ge; nia.
Qed.

Lemma f_is_inf_F x : f_is_inf F x = (expo x =? E - 1) && (man x =? 0).
Proof.
  unfold f_is_inf. rewrite finf_F, fmag_F.
  pose proof (man_range x). pose proof (expo_range x). pose proof M_pos.
  destruct (Z.eqb_spec (expo x) (E - 1)) as [e|n]; destruct (Z.eqb_spec (man x) 0) as [e'|n']; cbn [andb negb].
  - rewrite e, e'. apply Z.eqb_eq; lia.
  - rewrite e. apply Z.eqb_neq; lia.
  - apply Z.eqb_neq; nia.
  - apply Z.eqb_neq; nia.
Qed.

(** The value denoted by (sign, biased exponent, fraction), as a [spec_float]. *)
Definition sf_of (s : bool) (e m : Z) : spec_float :=
  if e =? 0 then
    (if m =? 0 then S754_zero s else S754_finite s (Z.to_pos m) emn)
  else if e =? E - 1 then
    (if m =? 0 then S754_infinity s else S754_nan)
  else S754_finite s (Z.to_pos (m + M)) (e + emn - 1).

Lemma aux_sf x :
  FF2SF (binary_float_of_bits_aux mw ew x) = sf_of (sgn x) (expo x) (man x).
Proof.
  unfold binary_float_of_bits_aux. rewrite split_bits_eq. unfold sf_of.
  pose proof (man_range x) as Hm. pose proof M_pos as HM.
  case Zeq_bool_spec; intros He1.
  - rewrite (proj2 (Z.eqb_eq _ _) He1).
    destruct (man x) as [|p|p]; [reflexivity|reflexivity|lia].
  - rewrite (proj2 (Z.eqb_neq _ _) He1).
    case Zeq_bool_spec; intros He2.
    + rewrite (proj2 (Z.eqb_eq _ _) He2).
      destruct (man x) as [|p|p]; [reflexivity|reflexivity|lia].
    + rewrite (proj2 (Z.eqb_neq _ _) He2).
      destruct (man x + M) as [|p|p] eqn:Q; [lia|reflexivity|lia].
Qed.

(** Non-NaN field condition. *)
Definition nn (e m : Z) : Prop := e <> E - 1 \/ m = 0.

Lemma pcompare_Z p q : Pcompare p q Eq = (Zpos p ?= Zpos q).
Proof. reflexivity. Qed.

Lemma cmp_lex_pos (ea eb : Z) (pa pb : positive) (A B : Z) :
  (ea < eb -> A < B) -> (eb < ea -> B < A) ->
  (ea = eb -> (Zpos pa ?= Zpos pb) = (A ?= B)) ->
  match ea ?= eb with Lt => Lt | Gt => Gt | Eq => Pcompare pa pb Eq end = (A ?= B).
Proof.
  intros H1 H2 H3. rewrite pcompare_Z.
  destruct (Z.compare_spec ea eb) as [e|l|g].
  - now apply H3.
  - symmetry; apply Z.compare_lt_iff; auto.
  - symmetry; apply Z.compare_gt_iff; auto.
Qed.

Lemma cmp_lex_neg (ea eb : Z) (pa pb : positive) (A B : Z) :
  (ea < eb -> A < B) -> (eb < ea -> B < A) ->
  (ea = eb -> (Zpos pa ?= Zpos pb) = (A ?= B)) ->
  match ea ?= eb with Lt => Gt | Gt => Lt | Eq => CompOpp (Pcompare pa pb Eq) end = (B ?= A).
Proof.
  intros H1 H2 H3. rewrite pcompare_Z.
  destruct (Z.compare_spec ea eb) as [e|l|g].
  - rewrite (H3 e). symmetry; apply Z.compare_antisym.
  - symmetry; apply Z.compare_gt_iff; auto.
  - symmetry; apply Z.compare_lt_iff; auto.
Qed.

(** Shape of [sf_of] on non-NaN fields, with the magnitude word [e * M + m]
    expressed through the exponent offset [k] and the integer significand [p]. *)
Lemma sf_of_cases s e m :
  0 <= m < M -> 0 <= e < E -> nn e m ->
  (e * M + m = 0 /\ sf_of s e m = S754_zero s) \/
  (e * M + m = (E - 1) * M /\ sf_of s e m = S754_infinity s) \/
  (exists p k, sf_of s e m = S754_finite s p (k + emn) /\
     0 < e * M + m < (E - 1) * M /\ e * M + m = k * M + Zpos p /\
     0 <= k /\ 1 <= Zpos p < 2 * M /\ (0 < k -> M <= Zpos p)).
Proof.
  intros Hm He N. pose proof M_pos as HM. pose proof E_ge2 as HE. unfold sf_of, nn in *.
  destruct (Z.eqb_spec e 0) as [E0|E0].
  - subst e. destruct (Z.eqb_spec m 0) as [M0|M0].
    + left. subst m. split; [ring|reflexivity].
    + right; right. exists (Z.to_pos m), 0. rewrite Z2Pos.id by lia.
      split; [reflexivity|]. split; [nia|]. split; [ring|]. lia.
  - destruct (Z.eqb_spec e (E - 1)) as [Em|Em].
    + assert (m = 0) by lia. subst m e. rewrite Z.eqb_refl.
      right; left. split; [ring|reflexivity].
    + right; right. exists (Z.to_pos (m + M)), (e - 1). rewrite Z2Pos.id by lia.
      split; [f_equal; ring|]. split; [nia|]. split; [ring|]. lia.
Qed.

Lemma fin_fin_compare s1 p1 k1 s2 p2 k2 :
  0 <= k1 -> 1 <= Zpos p1 < 2 * M -> (0 < k1 -> M <= Zpos p1) ->
  0 <= k2 -> 1 <= Zpos p2 < 2 * M -> (0 < k2 -> M <= Zpos p2) ->
  SFcompare (S754_finite s1 p1 (k1 + emn)) (S754_finite s2 p2 (k2 + emn))
  = Some (cmp_sm s1 (k1 * M + Zpos p1) s2 (k2 * M + Zpos p2)).
Proof.
  intros K1 P1 Q1 K2 P2 Q2. pose proof M_pos as HM.
  assert (L12 : k1 < k2 -> k1 * M + Zpos p1 < k2 * M + Zpos p2).
  { intros L. assert (M <= Zpos p2) by lia. assert ((k1 + 1) * M <= k2 * M) by nia. lia. }
  assert (L21 : k2 < k1 -> k2 * M + Zpos p2 < k1 * M + Zpos p1).
  { intros L. assert (M <= Zpos p1) by lia. assert ((k2 + 1) * M <= k1 * M) by nia. lia. }
  assert (LE : k1 + emn = k2 + emn -> (Zpos p1 ?= Zpos p2) = (k1 * M + Zpos p1 ?= k2 * M + Zpos p2)).
  { intros L. assert (k1 = k2) by lia. subst k2. symmetry. apply Z.add_compare_mono_l. }
  assert (N1 : 0 < k1 * M + Zpos p1) by nia.
  assert (N2 : 0 < k2 * M + Zpos p2) by nia.
  destruct s1, s2; cbn [SFcompare cmp_sm]; f_equal.
  - apply cmp_lex_neg; [intros; apply L12; lia|intros; apply L21; lia|exact LE].
  - destruct (Z.eqb_spec (k1 * M + Zpos p1) 0); [lia|reflexivity].
  - destruct (Z.eqb_spec (k1 * M + Zpos p1) 0); [lia|reflexivity].
  - apply cmp_lex_pos; [intros; apply L12; lia|intros; apply L21; lia|exact LE].
Qed.

Lemma SFcompare_sf_of s1 e1 m1 s2 e2 m2 :
  0 <= m1 < M -> 0 <= e1 < E -> nn e1 m1 ->
  0 <= m2 < M -> 0 <= e2 < E -> nn e2 m2 ->
  SFcompare (sf_of s1 e1 m1) (sf_of s2 e2 m2)
  = Some (cmp_sm s1 (e1 * M + m1) s2 (e2 * M + m2)).
Proof.
  intros Hm1 He1 N1 Hm2 He2 N2.
  assert (HI : 0 < (E - 1) * M) by (pose proof M_pos; pose proof E_ge2; nia).
  destruct (sf_of_cases s1 e1 m1 Hm1 He1 N1) as [(A1 & ->)|[(A1 & ->)|(p1 & k1 & -> & B1 & A1 & C1)]];
  destruct (sf_of_cases s2 e2 m2 Hm2 He2 N2) as [(A2 & ->)|[(A2 & ->)|(p2 & k2 & -> & B2 & A2 & C2)]].
  9: { rewrite A1, A2. apply fin_fin_compare; tauto. }
  all: revert HI; try revert B1; try revert B2; rewrite ?A1, ?A2;
    generalize ((E - 1) * M); intros I; intros;
    destruct s1, s2; cbn [SFcompare cmp_sm]; f_equal;
    repeat match goal with
    | |- context [ ?a =? ?b ] => destruct (Z.eqb_spec a b)
    end; cbn [andb];
    repeat match goal with
    | |- context [ ?a ?= ?b ] => destruct (Z.compare_spec a b)
    end;
    first [ reflexivity | exfalso; lia ].
Qed.

Lemma nonnan_nn x : f_is_nan F x = false -> nn (expo x) (man x).
Proof.
  rewrite f_is_nan_F. unfold nn.
  destruct (Z.eqb_spec (expo x) (E - 1)); destruct (Z.eqb_spec (man x) 0); cbn; intros; auto; discriminate.
Qed.

(** *** Core statement: IEEE comparison of the decoded bit patterns is the
    sign-magnitude comparison of the words (no hypotheses on the range of the
    words are needed: all fields are extracted with [mod]). *)
Theorem SFcompare_bits x y :
  f_is_nan F x = false -> f_is_nan F y = false ->
  SFcompare (FF2SF (binary_float_of_bits_aux mw ew x)) (FF2SF (binary_float_of_bits_aux mw ew y))
  = Some (cmp_sm (fneg F x) (fmag F x) (fneg F y) (fmag F y)).
Proof.
  intros Nx Ny. rewrite !aux_sf, !fneg_F, !fmag_F.
  apply SFcompare_sf_of; auto using man_range, expo_range, nonnan_nn.
Qed.

(** [ftotal_lt] against [cmp_sm]: they agree except that the encoder puts -0 strictly before +0. *)
Definition neg_zero (x : Z) : Prop := fneg F x = true /\ fmag F x = 0.
Definition pos_zero (x : Z) : Prop := fneg F x = false /\ fmag F x = 0.

Lemma ftotal_lt_cmp_sm x y :
  f_is_nan F x = false -> f_is_nan F y = false ->
  (ftotal_lt F x y <->
   cmp_sm (fneg F x) (fmag F x) (fneg F y) (fmag F y) = Lt \/ (neg_zero x /\ pos_zero y)).
Proof.
  intros Nx Ny. unfold ftotal_lt, fclass, pair_lt, neg_zero, pos_zero. rewrite Nx, Ny.
  pose proof (fmag_F_nonneg x). pose proof (fmag_F_nonneg y).
  generalize dependent (fmag F x). generalize dependent (fmag F y). intros b Hb a Ha.
  destruct (fneg F x), (fneg F y); cbn [fst snd cmp_sm];
  repeat match goal with
  | |- context [ ?a =? ?b ] => destruct (Z.eqb_spec a b)
  end; cbn [andb];
  rewrite ?Z.compare_lt_iff; intuition (try discriminate; try lia).
Qed.

(** NaN / infinity / finiteness of the decoded value, on the computational core. *)
Lemma is_nan_aux x : is_nan_FF (binary_float_of_bits_aux mw ew x) = f_is_nan F x.
Proof.
  rewrite <- is_nan_FF2SF, aux_sf, f_is_nan_F. unfold sf_of.
  destruct (Z.eqb_spec (expo x) 0) as [e|n].
  - rewrite e. pose proof E_ge2. destruct (Z.eqb_spec 0 (E - 1)); [lia|].
    destruct (man x =? 0); reflexivity.
  - destruct (expo x =? E - 1); [|reflexivity]. destruct (man x =? 0); reflexivity.
Qed.

Lemma is_finite_aux x :
  is_finite_FF (binary_float_of_bits_aux mw ew x) = negb (f_is_nan F x) && negb (f_is_inf F x).
Proof.
  assert (Q : forall f, is_finite_FF f = is_finite_SF (FF2SF f)) by (now intros [ | | | ]).
  rewrite Q, aux_sf, f_is_nan_F, f_is_inf_F. unfold sf_of.
  destruct (Z.eqb_spec (expo x) 0) as [e|n].
  - rewrite e. pose proof E_ge2. destruct (Z.eqb_spec 0 (E - 1)); [lia|].
    destruct (man x =? 0); reflexivity.
  - destruct (expo x =? E - 1); [|reflexivity]. destruct (man x =? 0); reflexivity.
Qed.

Lemma is_inf_aux x :
  f_is_inf F x = true <-> binary_float_of_bits_aux mw ew x = F754_infinity (fneg F x).
Proof.
  rewrite f_is_inf_F, fneg_F. unfold binary_float_of_bits_aux. rewrite split_bits_eq.
  pose proof (man_range x) as Hm. pose proof M_pos as HM. pose proof E_ge2 as HE.
  case Zeq_bool_spec; intros He1.
  - rewrite He1. destruct (Z.eqb_spec 0 (E - 1)); [lia|]. cbn [andb].
    destruct (man x) as [|p|p]; split; discriminate.
  - case Zeq_bool_spec; intros He2.
    + rewrite (proj2 (Z.eqb_eq _ _) He2). cbn [andb].
      destruct (man x) as [|p|p]; split; try discriminate; reflexivity.
    + rewrite (proj2 (Z.eqb_neq _ _) He2). cbn [andb].
      destruct (man x + M) as [|p|p]; split; discriminate.
Qed.

(** *** Lifting to [binary_float_of_bits] (the validity proof inside [FF2B] is
    where Flocq's use of the reals enters the picture). *)
Hypothesis Hmax : prec < emax.
Local Notation bof := (binary_float_of_bits mw ew Hmw Hew Hmax).

Lemma Bcompare_bof_SF x y :
  Binary.Bcompare prec emax (bof x) (bof y)
  = SFcompare (FF2SF (binary_float_of_bits_aux mw ew x)) (FF2SF (binary_float_of_bits_aux mw ew y)).
Proof.
  unfold Binary.Bcompare, BinarySingleNaN.Bcompare. rewrite !B2SF_B2BSN.
  unfold binary_float_of_bits. now rewrite !B2SF_FF2B.
Qed.

Theorem Bcompare_bits x y :
  f_is_nan F x = false -> f_is_nan F y = false ->
  Binary.Bcompare prec emax (bof x) (bof y)
  = Some (cmp_sm (fneg F x) (fmag F x) (fneg F y) (fmag F y)).
Proof. intros. rewrite Bcompare_bof_SF. now apply SFcompare_bits. Qed.

Theorem gen_ftotal_lt_Bcompare x y :
  f_is_nan F x = false -> f_is_nan F y = false ->
  Binary.Bcompare prec emax (bof x) (bof y) = Some Lt -> ftotal_lt F x y.
Proof.
  intros Nx Ny H. rewrite Bcompare_bits in H by assumption.
  apply ftotal_lt_cmp_sm; auto. left. congruence.
Qed.

Theorem gen_Bcompare_ftotal_lt x y :
  f_is_nan F x = false -> f_is_nan F y = false ->
  ftotal_lt F x y ->
  Binary.Bcompare prec emax (bof x) (bof y) = Some Lt \/ (neg_zero x /\ pos_zero y).
Proof.
  intros Nx Ny H. rewrite Bcompare_bits by assumption.
  apply ftotal_lt_cmp_sm in H; auto. destruct H as [->|H]; auto.
Qed.

(** On -0 / +0 IEEE comparison says [Eq]. *)
Theorem gen_Bcompare_zeros x y :
  neg_zero x -> pos_zero y ->
  Binary.Bcompare prec emax (bof x) (bof y) = Some Eq.
Proof.
  intros (Sx & Mx) (Sy & My).
  assert (Nx : f_is_nan F x = false).
  { unfold f_is_nan. rewrite Mx, finf_F. apply Z.ltb_ge. pose proof M_pos; pose proof E_ge2; nia. }
  assert (Ny : f_is_nan F y = false).
  { unfold f_is_nan. rewrite My, finf_F. apply Z.ltb_ge. pose proof M_pos; pose proof E_ge2; nia. }
  rewrite Bcompare_bits by assumption. now rewrite Sx, Sy, Mx, My.
Qed.

Theorem gen_is_nan x : Binary.is_nan prec emax (bof x) = f_is_nan F x.
Proof. unfold binary_float_of_bits. rewrite is_nan_FF2B. apply is_nan_aux. Qed.

Theorem gen_is_finite x :
  Binary.is_finite prec emax (bof x) = negb (f_is_nan F x) && negb (f_is_inf F x).
Proof. unfold binary_float_of_bits. rewrite is_finite_FF2B. apply is_finite_aux. Qed.

Theorem gen_is_inf x :
  f_is_inf F x = true <-> bof x = Binary.B754_infinity prec emax (fneg F x).
Proof.
  rewrite is_inf_aux. unfold binary_float_of_bits. split; intros H.
  - apply B2FF_inj. now rewrite B2FF_FF2B.
  - rewrite <- (B2FF_FF2B prec emax _ (binary_float_of_bits_aux_correct mw ew Hmw Hew Hmax x)).
    now rewrite H.
Qed.

(** The two zeros as words. *)
Lemma fword_F x : fword F x <-> 0 <= x < 2 * (M * E).
Proof.
  unfold fword; cbn [fw gfmt]. replace (mw + ew + 1) with (Z.succ (mw + ew)) by ring.
  rewrite Z.pow_succ_r, Z.pow_add_r by lia. reflexivity.
Qed.

Lemma neg_zero_word x : fword F x -> (neg_zero x <-> x = fmsb F).
Proof.
  rewrite fword_F. unfold neg_zero, fneg, fmag. rewrite fmsb_F.
  assert (HK : 0 < M * E) by (pose proof M_pos; pose proof E_ge2; nia).
  set (K := M * E) in *. clearbody K. intros Hx. split.
  - intros (L & Z0). apply Z.leb_le in L.
    pose proof (Z.div_mod x K ltac:(lia)) as D. rewrite Z0 in D.
    assert (x / K = 1) by nia. nia.
  - intros ->. split; [apply Z.leb_refl|apply Z.mod_same; lia].
Qed.

Lemma pos_zero_word x : fword F x -> (pos_zero x <-> x = 0).
Proof.
  rewrite fword_F. unfold pos_zero, fneg, fmag. rewrite fmsb_F.
  assert (HK : 0 < M * E) by (pose proof M_pos; pose proof E_ge2; nia).
  set (K := M * E) in *. clearbody K. intros Hx. split.
  - intros (L & Z0). apply Z.leb_gt in L. rewrite Z.mod_small in Z0 by lia. exact Z0.
  - intros ->. split; [apply Z.leb_gt; lia|apply Z.mod_0_l; lia].
Qed.

Theorem gen_Bcompare_ftotal_lt_word x y :
  fword F x -> fword F y ->
  f_is_nan F x = false -> f_is_nan F y = false ->
  ftotal_lt F x y ->
  Binary.Bcompare prec emax (bof x) (bof y) = Some Lt \/ (x = fmsb F /\ y = 0).
Proof.
  intros Wx Wy Nx Ny H. destruct (gen_Bcompare_ftotal_lt x y Nx Ny H) as [L|(A & B)]; auto.
  right. split; [now apply neg_zero_word|now apply pos_zero_word].
Qed.

Theorem gen_Bcompare_zero_words :
  Binary.Bcompare prec emax (bof (fmsb F)) (bof 0) = Some Eq.
Proof.
  assert (W0 : fword F 0).
  { apply fword_F. pose proof M_pos. pose proof E_ge2. nia. }
  assert (W1 : fword F (fmsb F)).
  { apply fword_F. rewrite fmsb_F. pose proof M_pos. pose proof E_ge2. nia. }
  apply gen_Bcompare_zeros; [now apply neg_zero_word|now apply pos_zero_word].
Qed.

Lemma gen_finite_nonnan x : Binary.is_finite prec emax (bof x) = true -> f_is_nan F x = false.
Proof. rewrite gen_is_finite. destruct (f_is_nan F x); [discriminate|reflexivity]. Qed.

(** *** Corollaries with the encoder's order theorem. *)
Section WithEnc.
Hypothesis Hok : fmt_ok F.

Theorem gen_enc_lt_of_Bcompare x y :
  fword F x -> fword F y -> f_is_nan F x = false -> f_is_nan F y = false ->
  Binary.Bcompare prec emax (bof x) (bof y) = Some Lt ->
  lex_lt (enc_float F x) (enc_float F y).
Proof.
  intros Wx Wy Nx Ny H. apply enc_float_order; auto. now apply gen_ftotal_lt_Bcompare.
Qed.

Theorem gen_enc_lt_iff_Bcompare x y :
  fword F x -> fword F y -> f_is_nan F x = false -> f_is_nan F y = false ->
  (lex_lt (enc_float F x) (enc_float F y) <->
   Binary.Bcompare prec emax (bof x) (bof y) = Some Lt \/ (x = fmsb F /\ y = 0)).
Proof.
  intros Wx Wy Nx Ny. rewrite enc_float_order by auto. split.
  - now apply gen_Bcompare_ftotal_lt_word.
  - intros [H|(-> & ->)]; [now apply gen_ftotal_lt_Bcompare|].
    apply ftotal_lt_cmp_sm; auto. right.
    split; [apply neg_zero_word|apply pos_zero_word]; auto.
Qed.

(** Link to the reals (uses Flocq's [Bcompare_correct]; finite values only). *)
Theorem gen_enc_lt_of_Rlt x y :
  fword F x -> fword F y ->
  Binary.is_finite prec emax (bof x) = true -> Binary.is_finite prec emax (bof y) = true ->
  (Binary.B2R prec emax (bof x) < Binary.B2R prec emax (bof y))%R ->
  lex_lt (enc_float F x) (enc_float F y).
Proof.
  intros Wx Wy Fx Fy H.
  apply gen_enc_lt_of_Bcompare; auto using gen_finite_nonnan.
  rewrite Binary.Bcompare_correct by assumption. f_equal. now apply Rcompare_Lt.
Qed.

Theorem gen_enc_lt_iff_Rlt x y :
  fword F x -> fword F y ->
  Binary.is_finite prec emax (bof x) = true -> Binary.is_finite prec emax (bof y) = true ->
  (lex_lt (enc_float F x) (enc_float F y) <->
   (Binary.B2R prec emax (bof x) < Binary.B2R prec emax (bof y))%R \/ (x = fmsb F /\ y = 0)).
Proof.
  intros Wx Wy Fx Fy.
  rewrite gen_enc_lt_iff_Bcompare by auto using gen_finite_nonnan.
  rewrite Binary.Bcompare_correct by assumption. split.
  - intros [H|H]; auto. left. apply Rcompare_Lt_inv. congruence.
  - intros [H|H]; auto. left. f_equal. now apply Rcompare_Lt.
Qed.

(** In the exceptional case both values are the real number zero. *)
Theorem gen_zero_words_B2R :
  Binary.B2R prec emax (bof (fmsb F)) = 0%R /\ Binary.B2R prec emax (bof 0) = 0%R.
Proof.
  assert (W0 : fword F 0).
  { apply fword_F. pose proof M_pos. pose proof E_ge2. nia. }
  assert (W1 : fword F (fmsb F)).
  { apply fword_F. rewrite fmsb_F. pose proof M_pos. pose proof E_ge2. nia. }
  assert (Q : forall x, fmag F x = 0 -> Binary.B2R prec emax (bof x) = 0%R).
  { intros x Hx. unfold binary_float_of_bits. rewrite B2R_FF2B.
    rewrite <- SF2R_FF2SF, aux_sf. rewrite fmag_F in Hx.
    pose proof (man_range x). pose proof (expo_range x). pose proof M_pos.
    assert (expo x = 0 /\ man x = 0) as (-> & ->) by nia. reflexivity. }
  split; apply Q.
  - now apply (proj2 (neg_zero_word _ W1) eq_refl).
  - now apply (proj2 (pos_zero_word _ W0) eq_refl).
Qed.

End WithEnc.

End Gen.

(** * Instances: binary32 ([b32_of_bits]) and binary64 ([b64_of_bits]).
    [gfmt 23 8] is convertible with [f32] and [gfmt 52 11] with [f64];
    [b32_of_bits] is [binary_float_of_bits 23 8 eq_refl eq_refl eq_refl]. *)

Lemma gfmt32 : gfmt 23 8 = f32. Proof. reflexivity. Qed.
Lemma gfmt64 : gfmt 52 11 = f64. Proof. reflexivity. Qed.

Local Notation Bcompare32 := (Binary.Bcompare 24 128).
Local Notation Bcompare64 := (Binary.Bcompare 53 1024).

(** ** (1) IEEE "less than" implies the encoder's order *)

Theorem ftotal_lt_Bcompare32 : forall x y,
  0 <= x < 2 ^ 32 -> 0 <= y < 2 ^ 32 ->
  f_is_nan f32 x = false -> f_is_nan f32 y = false ->
  Bcompare32 (b32_of_bits x) (b32_of_bits y) = Some Lt -> ftotal_lt f32 x y.
Proof. intros x y _ _. exact (gen_ftotal_lt_Bcompare 23 8 eq_refl eq_refl eq_refl x y). Qed.

Theorem ftotal_lt_Bcompare64 : forall x y,
  0 <= x < 2 ^ 64 -> 0 <= y < 2 ^ 64 ->
  f_is_nan f64 x = false -> f_is_nan f64 y = false ->
  Bcompare64 (b64_of_bits x) (b64_of_bits y) = Some Lt -> ftotal_lt f64 x y.
Proof. intros x y _ _. exact (gen_ftotal_lt_Bcompare 52 11 eq_refl eq_refl eq_refl x y). Qed.

(** ** (2) Converse, up to -0 / +0 (words [2^31] / [0], resp. [2^63] / [0]),
    which IEEE compares [Eq] and the encoder orders -0 first. *)

Theorem Bcompare_ftotal_lt32 : forall x y,
  0 <= x < 2 ^ 32 -> 0 <= y < 2 ^ 32 ->
  f_is_nan f32 x = false -> f_is_nan f32 y = false ->
  ftotal_lt f32 x y ->
  Bcompare32 (b32_of_bits x) (b32_of_bits y) = Some Lt \/ (x = 2 ^ 31 /\ y = 0).
Proof. exact (gen_Bcompare_ftotal_lt_word 23 8 eq_refl eq_refl eq_refl). Qed.

Theorem Bcompare_ftotal_lt64 : forall x y,
  0 <= x < 2 ^ 64 -> 0 <= y < 2 ^ 64 ->
  f_is_nan f64 x = false -> f_is_nan f64 y = false ->
  ftotal_lt f64 x y ->
  Bcompare64 (b64_of_bits x) (b64_of_bits y) = Some Lt \/ (x = 2 ^ 63 /\ y = 0).
Proof. exact (gen_Bcompare_ftotal_lt_word 52 11 eq_refl eq_refl eq_refl). Qed.

Theorem Bcompare_zeros32 : Bcompare32 (b32_of_bits (2 ^ 31)) (b32_of_bits 0) = Some Eq.
Proof. exact (gen_Bcompare_zero_words 23 8 eq_refl eq_refl eq_refl). Qed.

Theorem Bcompare_zeros64 : Bcompare64 (b64_of_bits (2 ^ 63)) (b64_of_bits 0) = Some Eq.
Proof. exact (gen_Bcompare_zero_words 52 11 eq_refl eq_refl eq_refl). Qed.

(** Both directions at once: on non-NaN words IEEE comparison is exactly the
    sign-magnitude comparison [cmp_sm] of (sign bit, magnitude bits). *)
Theorem Bcompare_bits32 : forall x y,
  f_is_nan f32 x = false -> f_is_nan f32 y = false ->
  Bcompare32 (b32_of_bits x) (b32_of_bits y)
  = Some (cmp_sm (fneg f32 x) (fmag f32 x) (fneg f32 y) (fmag f32 y)).
Proof. exact (Bcompare_bits 23 8 eq_refl eq_refl eq_refl). Qed.

Theorem Bcompare_bits64 : forall x y,
  f_is_nan f64 x = false -> f_is_nan f64 y = false ->
  Bcompare64 (b64_of_bits x) (b64_of_bits y)
  = Some (cmp_sm (fneg f64 x) (fmag f64 x) (fneg f64 y) (fmag f64 y)).
Proof. exact (Bcompare_bits 52 11 eq_refl eq_refl eq_refl). Qed.

(** The same on the computational core of [b32_of_bits] / [b64_of_bits]
    (no validity proof in the statement, hence closed under the global context). *)
Theorem SFcompare_bits32 : forall x y,
  f_is_nan f32 x = false -> f_is_nan f32 y = false ->
  SFcompare (FF2SF (binary_float_of_bits_aux 23 8 x)) (FF2SF (binary_float_of_bits_aux 23 8 y))
  = Some (cmp_sm (fneg f32 x) (fmag f32 x) (fneg f32 y) (fmag f32 y)).
Proof. exact (SFcompare_bits 23 8 eq_refl eq_refl). Qed.

Theorem SFcompare_bits64 : forall x y,
  f_is_nan f64 x = false -> f_is_nan f64 y = false ->
  SFcompare (FF2SF (binary_float_of_bits_aux 52 11 x)) (FF2SF (binary_float_of_bits_aux 52 11 y))
  = Some (cmp_sm (fneg f64 x) (fmag f64 x) (fneg f64 y) (fmag f64 y)).
Proof. exact (SFcompare_bits 52 11 eq_refl eq_refl). Qed.

Theorem ftotal_lt_cmp_sm32 : forall x y,
  f_is_nan f32 x = false -> f_is_nan f32 y = false ->
  (ftotal_lt f32 x y <->
   cmp_sm (fneg f32 x) (fmag f32 x) (fneg f32 y) (fmag f32 y) = Lt
   \/ ((fneg f32 x = true /\ fmag f32 x = 0) /\ (fneg f32 y = false /\ fmag f32 y = 0))).
Proof. exact (ftotal_lt_cmp_sm 23 8 eq_refl eq_refl). Qed.

Theorem ftotal_lt_cmp_sm64 : forall x y,
  f_is_nan f64 x = false -> f_is_nan f64 y = false ->
  (ftotal_lt f64 x y <->
   cmp_sm (fneg f64 x) (fmag f64 x) (fneg f64 y) (fmag f64 y) = Lt
   \/ ((fneg f64 x = true /\ fmag f64 x = 0) /\ (fneg f64 y = false /\ fmag f64 y = 0))).
Proof. exact (ftotal_lt_cmp_sm 52 11 eq_refl eq_refl). Qed.

(** ** (3) NaN, infinity, finiteness *)

Theorem is_nan32_eq : forall x, Binary.is_nan 24 128 (b32_of_bits x) = f_is_nan f32 x.
Proof. exact (gen_is_nan 23 8 eq_refl eq_refl eq_refl). Qed.
Theorem is_nan64_eq : forall x, Binary.is_nan 53 1024 (b64_of_bits x) = f_is_nan f64 x.
Proof. exact (gen_is_nan 52 11 eq_refl eq_refl eq_refl). Qed.

Theorem f_is_nan_is_nan32 : forall x,
  f_is_nan f32 x = true <-> Binary.is_nan 24 128 (b32_of_bits x) = true.
Proof. intros x. now rewrite is_nan32_eq. Qed.
Theorem f_is_nan_is_nan64 : forall x,
  f_is_nan f64 x = true <-> Binary.is_nan 53 1024 (b64_of_bits x) = true.
Proof. intros x. now rewrite is_nan64_eq. Qed.

Theorem f_is_inf_infinity32 : forall x,
  f_is_inf f32 x = true <-> b32_of_bits x = Binary.B754_infinity 24 128 (fneg f32 x).
Proof. exact (gen_is_inf 23 8 eq_refl eq_refl eq_refl). Qed.
Theorem f_is_inf_infinity64 : forall x,
  f_is_inf f64 x = true <-> b64_of_bits x = Binary.B754_infinity 53 1024 (fneg f64 x).
Proof. exact (gen_is_inf 52 11 eq_refl eq_refl eq_refl). Qed.

Theorem is_finite32_eq : forall x,
  Binary.is_finite 24 128 (b32_of_bits x) = negb (f_is_nan f32 x) && negb (f_is_inf f32 x).
Proof. exact (gen_is_finite 23 8 eq_refl eq_refl eq_refl). Qed.
Theorem is_finite64_eq : forall x,
  Binary.is_finite 53 1024 (b64_of_bits x) = negb (f_is_nan f64 x) && negb (f_is_inf f64 x).
Proof. exact (gen_is_finite 52 11 eq_refl eq_refl eq_refl). Qed.

(** Assumption-free versions on the computational core. *)
Theorem is_nan_aux32 : forall x, is_nan_FF (binary_float_of_bits_aux 23 8 x) = f_is_nan f32 x.
Proof. exact (is_nan_aux 23 8 eq_refl eq_refl). Qed.
Theorem is_nan_aux64 : forall x, is_nan_FF (binary_float_of_bits_aux 52 11 x) = f_is_nan f64 x.
Proof. exact (is_nan_aux 52 11 eq_refl eq_refl). Qed.
Theorem is_inf_aux32 : forall x,
  f_is_inf f32 x = true <-> binary_float_of_bits_aux 23 8 x = F754_infinity (fneg f32 x).
Proof. exact (is_inf_aux 23 8 eq_refl eq_refl). Qed.
Theorem is_inf_aux64 : forall x,
  f_is_inf f64 x = true <-> binary_float_of_bits_aux 52 11 x = F754_infinity (fneg f64 x).
Proof. exact (is_inf_aux 52 11 eq_refl eq_refl). Qed.

(** ** (4) Corollaries with [enc_float_order] *)

Theorem enc_lt_of_Bcompare32 : forall x y,
  0 <= x < 2 ^ 32 -> 0 <= y < 2 ^ 32 ->
  f_is_nan f32 x = false -> f_is_nan f32 y = false ->
  Bcompare32 (b32_of_bits x) (b32_of_bits y) = Some Lt ->
  lex_lt (enc_float f32 x) (enc_float f32 y).
Proof. exact (gen_enc_lt_of_Bcompare 23 8 eq_refl eq_refl eq_refl f32_ok). Qed.

Theorem enc_lt_of_Bcompare64 : forall x y,
  0 <= x < 2 ^ 64 -> 0 <= y < 2 ^ 64 ->
  f_is_nan f64 x = false -> f_is_nan f64 y = false ->
  Bcompare64 (b64_of_bits x) (b64_of_bits y) = Some Lt ->
  lex_lt (enc_float f64 x) (enc_float f64 y).
Proof. exact (gen_enc_lt_of_Bcompare 52 11 eq_refl eq_refl eq_refl f64_ok). Qed.

Theorem enc_lt_iff_Bcompare32 : forall x y,
  0 <= x < 2 ^ 32 -> 0 <= y < 2 ^ 32 ->
  f_is_nan f32 x = false -> f_is_nan f32 y = false ->
  (lex_lt (enc_float f32 x) (enc_float f32 y) <->
   Bcompare32 (b32_of_bits x) (b32_of_bits y) = Some Lt \/ (x = 2 ^ 31 /\ y = 0)).
Proof. exact (gen_enc_lt_iff_Bcompare 23 8 eq_refl eq_refl eq_refl f32_ok). Qed.

Theorem enc_lt_iff_Bcompare64 : forall x y,
  0 <= x < 2 ^ 64 -> 0 <= y < 2 ^ 64 ->
  f_is_nan f64 x = false -> f_is_nan f64 y = false ->
  (lex_lt (enc_float f64 x) (enc_float f64 y) <->
   Bcompare64 (b64_of_bits x) (b64_of_bits y) = Some Lt \/ (x = 2 ^ 63 /\ y = 0)).
Proof. exact (gen_enc_lt_iff_Bcompare 52 11 eq_refl eq_refl eq_refl f64_ok). Qed.

(** ** (4') Link to the real numbers, finite values *)

Theorem enc_lt_of_Rlt32 : forall x y,
  0 <= x < 2 ^ 32 -> 0 <= y < 2 ^ 32 ->
  Binary.is_finite 24 128 (b32_of_bits x) = true -> Binary.is_finite 24 128 (b32_of_bits y) = true ->
  (Binary.B2R 24 128 (b32_of_bits x) < Binary.B2R 24 128 (b32_of_bits y))%R ->
  lex_lt (enc_float f32 x) (enc_float f32 y).
Proof. exact (gen_enc_lt_of_Rlt 23 8 eq_refl eq_refl eq_refl f32_ok). Qed.

Theorem enc_lt_of_Rlt64 : forall x y,
  0 <= x < 2 ^ 64 -> 0 <= y < 2 ^ 64 ->
  Binary.is_finite 53 1024 (b64_of_bits x) = true -> Binary.is_finite 53 1024 (b64_of_bits y) = true ->
  (Binary.B2R 53 1024 (b64_of_bits x) < Binary.B2R 53 1024 (b64_of_bits y))%R ->
  lex_lt (enc_float f64 x) (enc_float f64 y).
Proof. exact (gen_enc_lt_of_Rlt 52 11 eq_refl eq_refl eq_refl f64_ok). Qed.

Theorem enc_lt_iff_Rlt32 : forall x y,
  0 <= x < 2 ^ 32 -> 0 <= y < 2 ^ 32 ->
  Binary.is_finite 24 128 (b32_of_bits x) = true -> Binary.is_finite 24 128 (b32_of_bits y) = true ->
  (lex_lt (enc_float f32 x) (enc_float f32 y) <->
   (Binary.B2R 24 128 (b32_of_bits x) < Binary.B2R 24 128 (b32_of_bits y))%R \/ (x = 2 ^ 31 /\ y = 0)).
Proof. exact (gen_enc_lt_iff_Rlt 23 8 eq_refl eq_refl eq_refl f32_ok). Qed.

Theorem enc_lt_iff_Rlt64 : forall x y,
  0 <= x < 2 ^ 64 -> 0 <= y < 2 ^ 64 ->
  Binary.is_finite 53 1024 (b64_of_bits x) = true -> Binary.is_finite 53 1024 (b64_of_bits y) = true ->
  (lex_lt (enc_float f64 x) (enc_float f64 y) <->
   (Binary.B2R 53 1024 (b64_of_bits x) < Binary.B2R 53 1024 (b64_of_bits y))%R \/ (x = 2 ^ 63 /\ y = 0)).
Proof. exact (gen_enc_lt_iff_Rlt 52 11 eq_refl eq_refl eq_refl f64_ok). Qed.

Theorem zero_words_B2R32 :
  Binary.B2R 24 128 (b32_of_bits (2 ^ 31)) = 0%R /\ Binary.B2R 24 128 (b32_of_bits 0) = 0%R.
Proof. exact (gen_zero_words_B2R 23 8 eq_refl eq_refl eq_refl). Qed.

Theorem zero_words_B2R64 :
  Binary.B2R 53 1024 (b64_of_bits (2 ^ 63)) = 0%R /\ Binary.B2R 53 1024 (b64_of_bits 0) = 0%R.
Proof. exact (gen_zero_words_B2R 52 11 eq_refl eq_refl eq_refl). Qed.

(** Non-vacuity / sanity: concrete words, computed by Flocq's decoder.
    1.0f = 0x3F800000, 2.0f = 0x40000000, -1.0f = 0xBF800000, +inf = 0x7F800000. *)
Example sanity32 :
  Bcompare32 (b32_of_bits 1065353216) (b32_of_bits 1073741824) = Some Lt /\
  Bcompare32 (b32_of_bits 3212836864) (b32_of_bits 1065353216) = Some Lt /\
  Bcompare32 (b32_of_bits 1073741824) (b32_of_bits 2139095040) = Some Lt /\
  Bcompare32 (b32_of_bits 2139095041) (b32_of_bits 0) = None /\
  f_is_nan f32 2139095041 = true /\ f_is_inf f32 2139095040 = true /\
  ftotal_lt f32 1065353216 1073741824 /\ ftotal_lt f32 3212836864 1065353216.
Proof.
  (* independent of the theorems above: Flocq's decoder and comparison are run *)
  repeat split; vm_compute; (reflexivity || (left; reflexivity) || (right; split; reflexivity)).
Qed.

(** -0.0 = 0x8000000000000000 < 2.5 = 0x4004000000000000 < +inf = 0x7FF0000000000000;
    -inf = 0xFFF0000000000000 is least. *)
Example sanity64 :
  Bcompare64 (b64_of_bits 9223372036854775808) (b64_of_bits 4612811918334230528) = Some Lt /\
  Bcompare64 (b64_of_bits 4612811918334230528) (b64_of_bits 9218868437227405312) = Some Lt /\
  Bcompare64 (b64_of_bits 18442240474082181120) (b64_of_bits 9223372036854775808) = Some Lt /\
  Bcompare64 (b64_of_bits 9223372036854775808) (b64_of_bits 0) = Some Eq /\
  ftotal_lt f64 9223372036854775808 0 /\
  ftotal_lt f64 18442240474082181120 9223372036854775808 /\
  f_is_inf f64 18442240474082181120 = true /\ f_is_nan f64 18442240474082181121 = true.
Proof.
  repeat split; vm_compute; (reflexivity || (left; reflexivity) || (right; split; reflexivity)).
Qed.
