(** C11: the encoding is order-preserving (integers, floats, text). *)
From Coq Require Import List ZArith Lia Bool.
From Unodb Require Import Base.Lex Base.Bytes Encode.EncModel.
Import ListNotations.
Local Open Scope Z_scope.

Lemma half_double n : (1 <= n)%nat -> 2 * half n = 256 ^ Z.of_nat n.
Proof.
  intros Hn. unfold half. destruct n as [|n]; [lia|]. rewrite pow256_S.
  pose proof (pow256_pos n). remember (256 ^ Z.of_nat n) as p.
  replace (256 * p) with (128 * p * 2) by lia. rewrite Z.div_mul by lia. lia.
Qed.

Theorem enc_uint_order n a b : in_u n a -> in_u n b ->
  lex_compare (enc_uint n a) (enc_uint n b) = Z.compare a b.
Proof. intros; now apply be_bytes_compare. Qed.

Theorem enc_int_order n a b : (1 <= n)%nat -> in_i n a -> in_i n b ->
  lex_compare (enc_int n a) (enc_int n b) = Z.compare a b.
Proof.
  unfold in_i, enc_int. intros Hn Ha Hb. pose proof (half_double n Hn).
  rewrite be_bytes_compare by lia.
  destruct (Z.compare_spec a b); [apply Z.compare_eq_iff|apply Z.compare_lt_iff|apply Z.compare_gt_iff]; lia.
Qed.

(** ** Floats *)

Definition fmt_ok (f : ffmt) : Prop := 1 <= fm f /\ fm f + 2 <= fw f /\ fw f = 8 * Z.of_nat (fbytes f).

Lemma f32_ok : fmt_ok f32. Proof. unfold fmt_ok; repeat split; vm_compute; congruence. Qed.
Lemma f64_ok : fmt_ok f64. Proof. unfold fmt_ok; repeat split; vm_compute; congruence. Qed.

Lemma fmt_facts f : fmt_ok f ->
  0 < finf f /\ finf f + 2 ^ (fm f - 1) < fmsb f /\ fmax f = 2 * fmsb f - 1 /\ 1 <= 2 ^ (fm f - 1)
  /\ 2 ^ fw f = 256 ^ Z.of_nat (fbytes f).
Proof.
  intros (H1 & H2 & H3). unfold finf, fmsb, fmax.
  assert (E1 : 2 ^ (fw f - 1) = 2 ^ (fw f - 1 - fm f) * 2 ^ fm f).
  { rewrite <- Z.pow_add_r by lia. f_equal; lia. }
  assert (E2 : 2 ^ fw f = 2 * 2 ^ (fw f - 1)).
  { rewrite <- Z.pow_succ_r by lia. f_equal; lia. }
  assert (E3 : 2 ^ fm f = 2 * 2 ^ (fm f - 1)).
  { rewrite <- Z.pow_succ_r by lia. f_equal; lia. }
  assert (P1 : 2 <= 2 ^ (fw f - 1 - fm f)).
  { change 2 with (2 ^ 1) at 1. apply Z.pow_le_mono_r; lia. }
  assert (P2 : 0 < 2 ^ (fm f - 1)) by (apply Z.pow_pos_nonneg; lia).
  assert (E4 : 2 ^ fw f = 256 ^ Z.of_nat (fbytes f)).
  { rewrite H3. change 256 with (2 ^ 8). rewrite <- Z.pow_mul_r by lia. reflexivity. }
  repeat split; try lia; nia.
Qed.

Definition fword (f : ffmt) (x : Z) : Prop := 0 <= x < 2 ^ fw f.

Lemma enc_float_word_range f x : fmt_ok f -> fword f x -> fword f (enc_float_word f x).
Proof.
  intros Hf Hx. destruct (fmt_facts f Hf) as (I0 & I1 & M & Q & _).
  unfold fword in *. unfold enc_float_word, f_is_nan, f_is_inf, fneg, fmag.
  assert (Hm : 0 < fmsb f) by lia.
  pose proof (Z.mod_pos_bound x (fmsb f) Hm).
  unfold fmax in *.
  destruct (finf f <? x mod fmsb f) eqn:E1; [lia|].
  destruct (x mod fmsb f =? finf f) eqn:E2; [destruct (fmsb f <=? x); lia|].
  destruct (fmsb f <=? x) eqn:E3; lia.
Qed.

(** The encoding is strictly monotone from the sign-magnitude total order to
    the unsigned order of the code words, and NaNs collapse. *)
Theorem enc_float_word_order f x y : fmt_ok f -> fword f x -> fword f y ->
  (ftotal_lt f x y <-> enc_float_word f x < enc_float_word f y).
Proof.
  intros Hf Hx Hy. destruct (fmt_facts f Hf) as (I0 & I1 & M & Q & _).
  unfold fword in *. unfold ftotal_lt, pair_lt, fclass, enc_float_word, f_is_nan, f_is_inf, fneg, fmag.
  assert (Hm : 0 < fmsb f) by lia.
  assert (W : 2 ^ fw f = 2 * fmsb f) by (unfold fmax in M; lia).
  pose proof (Z.mod_pos_bound x (fmsb f) Hm) as Bx.
  pose proof (Z.mod_pos_bound y (fmsb f) Hm) as By.
  pose proof (Z.div_mod x (fmsb f) ltac:(lia)) as Dx.
  pose proof (Z.div_mod y (fmsb f) ltac:(lia)) as Dy.
  set (mx := x mod fmsb f) in *. set (my := y mod fmsb f) in *.
  assert (Qx : x / fmsb f = 0 \/ x / fmsb f = 1).
  { assert (0 <= x / fmsb f < 2) by (split; [apply Z.div_pos; lia|apply Z.div_lt_upper_bound; lia]). lia. }
  assert (Qy : y / fmsb f = 0 \/ y / fmsb f = 1).
  { assert (0 <= y / fmsb f < 2) by (split; [apply Z.div_pos; lia|apply Z.div_lt_upper_bound; lia]). lia. }
  destruct (finf f <? mx) eqn:Nx; destruct (finf f <? my) eqn:Ny;
  destruct (mx =? finf f) eqn:Ix; destruct (my =? finf f) eqn:Iy;
  destruct (fmsb f <=? x) eqn:Sx; destruct (fmsb f <=? y) eqn:Sy; cbn [fst snd];
  destruct Qx as [Qx|Qx]; destruct Qy as [Qy|Qy]; rewrite Qx in Dx; rewrite Qy in Dy; lia.
Qed.

Theorem enc_float_order f x y : fmt_ok f -> fword f x -> fword f y ->
  (lex_lt (enc_float f x) (enc_float f y) <-> ftotal_lt f x y).
Proof.
  intros Hf Hx Hy. unfold lex_lt, enc_float.
  destruct (fmt_facts f Hf) as (_ & _ & _ & _ & W).
  pose proof (enc_float_word_range f x Hf Hx) as Rx.
  pose proof (enc_float_word_range f y Hf Hy) as Ry.
  unfold fword in Rx, Ry. rewrite W in Rx, Ry.
  rewrite be_bytes_compare by assumption.
  rewrite enc_float_word_order by assumption. apply Z.compare_lt_iff.
Qed.

(** All NaNs encode equal; distinct classes encode distinct. *)
Theorem enc_float_eq_iff f x y : fmt_ok f -> fword f x -> fword f y ->
  (enc_float f x = enc_float f y <-> fcanon f x = fcanon f y).
Proof.
  intros Hf Hx Hy. unfold enc_float.
  destruct (fmt_facts f Hf) as (I0 & I1 & M & Q & W).
  pose proof (enc_float_word_range f x Hf Hx) as Rx.
  pose proof (enc_float_word_range f y Hf Hy) as Ry.
  unfold fword in Rx, Ry. rewrite W in Rx, Ry.
  split.
  - intros E. apply be_bytes_inj in E; try assumption.
    revert E. clear Rx Ry. unfold fword in *.
    unfold fcanon, enc_float_word, f_is_nan, f_is_inf, fneg, fmag.
    assert (Hm : 0 < fmsb f) by lia.
    assert (W2 : 2 ^ fw f = 2 * fmsb f) by (unfold fmax in M; lia).
    pose proof (Z.mod_pos_bound x (fmsb f) Hm) as Bx.
    pose proof (Z.mod_pos_bound y (fmsb f) Hm) as By.
    pose proof (Z.div_mod x (fmsb f) ltac:(lia)) as Dx.
    pose proof (Z.div_mod y (fmsb f) ltac:(lia)) as Dy.
    set (mx := x mod fmsb f) in *. set (my := y mod fmsb f) in *.
    assert (Qx : x / fmsb f = 0 \/ x / fmsb f = 1).
    { assert (0 <= x / fmsb f < 2) by (split; [apply Z.div_pos; lia|apply Z.div_lt_upper_bound; lia]). lia. }
    assert (Qy : y / fmsb f = 0 \/ y / fmsb f = 1).
    { assert (0 <= y / fmsb f < 2) by (split; [apply Z.div_pos; lia|apply Z.div_lt_upper_bound; lia]). lia. }
    destruct (finf f <? mx) eqn:Nx; destruct (finf f <? my) eqn:Ny;
    destruct (mx =? finf f) eqn:Ix; destruct (my =? finf f) eqn:Iy;
    destruct (fmsb f <=? x) eqn:Sx; destruct (fmsb f <=? y) eqn:Sy;
    destruct Qx as [Qx|Qx]; destruct Qy as [Qy|Qy]; rewrite Qx in Dx; rewrite Qy in Dy; lia.
  - unfold fcanon, enc_float_word. intros E.
    destruct (f_is_nan f x) eqn:Nx; destruct (f_is_nan f y) eqn:Ny; try reflexivity.
    + subst y. unfold f_is_nan, fmag, fqnan in Ny.
      assert (Hm : 0 < fmsb f) by lia.
      rewrite Z.mod_small in Ny by lia. lia.
    + subst x. unfold f_is_nan, fmag, fqnan in Nx.
      assert (Hm : 0 < fmsb f) by lia.
      rewrite Z.mod_small in Nx by lia. lia.
    + now subst y.
Qed.

(** ** Text *)

Lemma strip_suffix t : exists z, t = strip_trailing_zeros t ++ z /\ Forall (fun b => b = 0) z.
Proof.
  induction t as [|x t (z & E & Hz)]; cbn [strip_trailing_zeros].
  - exists []. split; [reflexivity|constructor].
  - destruct (strip_trailing_zeros t) as [|y r] eqn:S.
    + destruct (Z.eqb_spec x 0) as [->|Hx].
      * exists (0 :: z). cbn in *. split; [now f_equal|now constructor].
      * exists z. cbn in *. split; [now f_equal|exact Hz].
    + exists z. split; [cbn; now f_equal|exact Hz].
Qed.

Lemma text_norm_length t : Z.of_nat (length (text_norm t)) <= maxlen.
Proof.
  unfold text_norm.
  destruct (strip_suffix (firstn (Z.to_nat maxlen) t)) as (z & E & _).
  apply (f_equal (@length Z)) in E. rewrite app_length in E.
  pose proof (firstn_le_length (Z.to_nat maxlen) t).
  unfold maxlen in *. lia.
Qed.

(** Comparison of [s ++ 0 :: x] and [s' ++ 0 :: y] with zero-free s, s'. *)
Lemma lex_compare_zero_terminated s s' x y :
  no_zero s -> no_zero s' -> Forall (fun b => 0 <= b) s -> Forall (fun b => 0 <= b) s' ->
  lex_compare (s ++ 0 :: x) (s' ++ 0 :: y) =
  match lex_compare s s' with Eq => lex_compare x y | c => c end.
Proof.
  unfold no_zero. revert s'; induction s as [|a s IH]; intros [|b s'] Z1 Z2 P1 P2; cbn [app lex_compare].
  - rewrite Z.compare_refl. reflexivity.
  - assert (b <> 0) by (intros ->; apply Z2; now left).
    inversion P2; subst. assert (0 < b) as ->%Z.compare_lt_iff by lia. reflexivity.
  - assert (a <> 0) by (intros ->; apply Z1; now left).
    inversion P1; subst. assert (0 < a) as ->%Z.compare_gt_iff by lia. reflexivity.
  - inversion P1; inversion P2; subst.
    destruct (Z.compare a b); auto.
    apply IH; auto; intros Hin; [apply Z1|apply Z2]; now right.
Qed.

Lemma text_norm_nonneg t : Forall (fun b => 0 <= b) t -> Forall (fun b => 0 <= b) (text_norm t).
Proof.
  intros H. unfold text_norm.
  destruct (strip_suffix (firstn (Z.to_nat maxlen) t)) as (z & E & _).
  assert (F : Forall (fun b => 0 <= b) (firstn (Z.to_nat maxlen) t)).
  { apply Forall_forall. intros b Hb. rewrite Forall_forall in H.
    apply H. rewrite <- (firstn_skipn (Z.to_nat maxlen) t). apply in_or_app. now left. }
  rewrite E in F. apply Forall_app in F. tauto.
Qed.

Theorem enc_text_order a b :
  bytes_ok a -> bytes_ok b -> NoInteriorZero a -> NoInteriorZero b ->
  lex_compare (enc_text a) (enc_text b) = lex_compare (text_norm a) (text_norm b).
Proof.
  intros Ba Bb Za Zb. unfold enc_text. cbn [app].
  assert (Pa : Forall (fun b => 0 <= b) a) by (eapply Forall_impl; [|exact Ba]; unfold is_byte; intros; lia).
  assert (Pb : Forall (fun b => 0 <= b) b) by (eapply Forall_impl; [|exact Bb]; unfold is_byte; intros; lia).
  rewrite lex_compare_zero_terminated; auto using text_norm_nonneg.
  destruct (lex_compare (text_norm a) (text_norm b)) eqn:E; auto.
  apply lex_compare_eq in E. rewrite E. apply lex_compare_refl.
Qed.

(** Without the no-interior-zero hypothesis order (and prefix freedom) fail:
    machine-checked witness, see C15. *)
