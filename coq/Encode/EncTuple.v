(** C11 (tuples), C12 (round trips, widths, buffer), C15 (prefix freedom). *)
From Coq Require Import List ZArith Lia Bool.
From Unodb Require Import Base.Lex Base.Bytes Encode.EncModel Encode.EncOrder.
Import ListNotations.
Local Open Scope Z_scope.

(** * Prefix-free pairs and concatenation *)

Definition pf_pair (x y : list Z) : Prop :=
  (is_prefix x y = true -> x = y) /\ (is_prefix y x = true -> x = y).

Lemma pf_pair_same_length x y : length x = length y -> pf_pair x y.
Proof.
  intros L; split; intros H.
  - now apply is_prefix_same_length.
  - symmetry. apply is_prefix_same_length; auto.
Qed.

Lemma pf_pair_tail a x y : pf_pair (a :: x) (a :: y) -> pf_pair x y.
Proof.
  intros [H1 H2]; split; intros H.
  - assert (E : a :: x = a :: y) by (apply H1; cbn; now rewrite Z.eqb_refl). now injection E.
  - assert (E : a :: x = a :: y) by (apply H2; cbn; now rewrite Z.eqb_refl). now injection E.
Qed.

Lemma lex_compare_app_pf x y x' y' : pf_pair x y ->
  lex_compare (x ++ x') (y ++ y') =
  match lex_compare x y with Eq => lex_compare x' y' | c => c end.
Proof.
  revert y; induction x as [|a x IH]; intros [|b y] PF.
  - reflexivity.
  - destruct PF as [H _]. discriminate H. reflexivity.
  - destruct PF as [_ H]. discriminate H. reflexivity.
  - cbn [app lex_compare]. destruct (Z.compare_spec a b) as [E|L|G]; try reflexivity.
    subst b. apply IH. eapply pf_pair_tail; eauto.
Qed.

Lemma is_prefix_app_pf x y x' y' : pf_pair x y ->
  is_prefix (x ++ x') (y ++ y') = true -> x = y /\ is_prefix x' y' = true.
Proof.
  revert y; induction x as [|a x IH]; intros [|b y] PF H.
  - auto.
  - destruct PF as [P _]. discriminate P. reflexivity.
  - destruct PF as [_ P]. discriminate P. reflexivity.
  - cbn [app is_prefix] in H. apply andb_true_iff in H as [E H]. apply Z.eqb_eq in E. subst b.
    destruct (IH y (pf_pair_tail _ _ _ PF) H) as [-> H']. auto.
Qed.

(** * Text: equality and prefix freedom *)

Lemma is_prefix_zero_terminated s s' x y : no_zero s -> no_zero s' ->
  is_prefix (s ++ 0 :: x) (s' ++ 0 :: y) = true -> s = s' /\ is_prefix x y = true.
Proof.
  unfold no_zero. revert s'; induction s as [|a s IH]; intros [|b s'] Z1 Z2 H; cbn [app is_prefix] in H.
  - apply andb_true_iff in H as [_ H]. auto.
  - apply andb_true_iff in H as [E _]. apply Z.eqb_eq in E. subst b. exfalso; apply Z2; now left.
  - apply andb_true_iff in H as [E _]. apply Z.eqb_eq in E. subst a. exfalso; apply Z1; now left.
  - apply andb_true_iff in H as [E H]. apply Z.eqb_eq in E. subst b.
    destruct (IH s') as [-> H']; auto; intros Hin; [apply Z1|apply Z2]; now right.
Qed.

Theorem enc_text_prefix_free a b : NoInteriorZero a -> NoInteriorZero b -> pf_pair (enc_text a) (enc_text b).
Proof.
  intros Za Zb. unfold enc_text. cbn [app].
  split; intros H; apply is_prefix_zero_terminated in H; auto; destruct H as [E H].
  - now rewrite E.
  - now rewrite E.
Qed.

Theorem enc_text_eq_iff a b : NoInteriorZero a -> NoInteriorZero b ->
  (enc_text a = enc_text b <-> text_norm a = text_norm b).
Proof.
  intros Za Zb. split.
  - intros E. unfold enc_text in E. cbn [app] in E.
    assert (H : is_prefix (text_norm a ++ 0 :: be_bytes 2 (maxlen - Z.of_nat (length (text_norm a))))
                          (text_norm b ++ 0 :: be_bytes 2 (maxlen - Z.of_nat (length (text_norm b)))) = true).
    { rewrite E. apply is_prefix_refl. }
    apply is_prefix_zero_terminated in H; tauto.
  - intros E. unfold enc_text. now rewrite E.
Qed.

Lemma text_norm_firstn t : text_norm (firstn (Z.to_nat maxlen) t) = text_norm t.
Proof. unfold text_norm. rewrite firstn_firstn, Nat.min_id. reflexivity. Qed.

Theorem enc_text_io t :
  enc_text t = enc_text (firstn (Z.to_nat maxlen) t) /\ Z.of_nat (length (enc_text t)) <= maxlen + 3.
Proof.
  split.
  - unfold enc_text. now rewrite text_norm_firstn.
  - unfold enc_text. rewrite !app_length, be_bytes_length. cbn [length].
    pose proof (text_norm_length t). lia.
Qed.

(** The no-interior-zero hypothesis is necessary: "x" and "x\0\xFF\xFB". *)
Theorem enc_text_interior_zero_refuted :
  exists a b, a <> b /\ bytes_ok a /\ bytes_ok b /\ is_prefix (enc_text a) (enc_text b) = true
              /\ enc_text a <> enc_text b.
Proof.
  exists [120], [120; 0; 255; 251]. repeat split.
  - discriminate.
  - repeat constructor; unfold is_byte; lia.
  - repeat constructor; unfold is_byte; lia.
  - vm_compute. discriminate.
Qed.

(** * Components *)

Definition comp_ok (c : comp) : Prop :=
  match c with
  | CU n v => in_u n v
  | CI n v => (1 <= n)%nat /\ in_i n v
  | CF f x => fmt_ok f /\ fword f x
  | CText t => bytes_ok t /\ NoInteriorZero t
  end.

Definition comp_lt (c d : comp) : Prop :=
  match c, d with
  | CU _ a, CU _ b => a < b
  | CI _ a, CI _ b => a < b
  | CF f x, CF _ y => ftotal_lt f x y
  | CText a, CText b => lex_lt (text_norm a) (text_norm b)
  | _, _ => False
  end.

Lemma compare_lt_iff_eq (c : comparison) a b : c = Z.compare a b -> (c = Lt <-> a < b).
Proof. intros ->. apply Z.compare_lt_iff. Qed.

Lemma comp_order c d : ty_of c = ty_of d -> comp_ok c -> comp_ok d ->
  (lex_lt (enc_comp c) (enc_comp d) <-> comp_lt c d).
Proof.
  destruct c as [n a|n a|f x|a], d as [m b|m b|g y|b]; cbn [ty_of]; intros T; try discriminate;
    cbn [comp_ok enc_comp comp_lt]; unfold lex_lt.
  - injection T as <-. intros Ha Hb. rewrite enc_uint_order by assumption. apply Z.compare_lt_iff.
  - injection T as <-. intros [Hn Ha] [_ Hb]. rewrite enc_int_order by assumption. apply Z.compare_lt_iff.
  - injection T as <-. intros [Hf Hx] [_ Hy]. now apply enc_float_order.
  - intros [Ba Za] [Bb Zb]. rewrite enc_text_order by assumption. reflexivity.
Qed.

Lemma comp_eq_iff c d : ty_of c = ty_of d -> comp_ok c -> comp_ok d ->
  (enc_comp c = enc_comp d <-> comp_canon c = comp_canon d).
Proof.
  destruct c as [n a|n a|f x|a], d as [m b|m b|g y|b]; cbn [ty_of]; intros T; try discriminate;
    cbn [comp_ok enc_comp comp_canon].
  - injection T as <-. intros Ha Hb. unfold enc_uint. split.
    + intros E. f_equal. eapply be_bytes_inj; eauto.
    + intros E. injection E as ->. reflexivity.
  - injection T as <-. intros [Hn Ha] [_ Hb]. unfold enc_int, in_i in *. pose proof (half_double n Hn). split.
    + intros E. f_equal. apply be_bytes_inj in E; lia.
    + intros E. injection E as ->. reflexivity.
  - injection T as <-. intros [Hf Hx] [_ Hy]. rewrite enc_float_eq_iff by assumption. split.
    + intros ->. reflexivity.
    + intros E. now injection E.
  - intros [Ba Za] [Bb Zb]. rewrite enc_text_eq_iff by assumption. split.
    + intros ->. reflexivity.
    + intros E. now injection E.
Qed.

Lemma enc_comp_length c : forall n, ty_width (ty_of c) = Some n -> length (enc_comp c) = n.
Proof.
  destruct c; cbn [ty_of ty_width enc_comp]; intros m E; try discriminate; injection E as <-; unfold enc_uint, enc_int, enc_float; apply be_bytes_length.
Qed.

Lemma comp_pf c d : ty_of c = ty_of d -> comp_ok c -> comp_ok d -> pf_pair (enc_comp c) (enc_comp d).
Proof.
  intros T Hc Hd. destruct (ty_width (ty_of c)) as [n|] eqn:W.
  - apply pf_pair_same_length. rewrite (enc_comp_length c n W). rewrite T in W.
    now rewrite (enc_comp_length d n W).
  - destruct c as [| | |a]; try discriminate. destruct d as [| | |b]; try discriminate.
    cbn in *. apply enc_text_prefix_free; tauto.
Qed.

(** * Tuples *)

Fixpoint tuple_lt (cs ds : list comp) : Prop :=
  match cs, ds with
  | c :: cs', d :: ds' => comp_lt c d \/ (comp_canon c = comp_canon d /\ tuple_lt cs' ds')
  | _, _ => False
  end.

Theorem enc_tuple_order cs ds :
  map ty_of cs = map ty_of ds -> Forall comp_ok cs -> Forall comp_ok ds ->
  (lex_lt (enc_tuple cs) (enc_tuple ds) <-> tuple_lt cs ds).
Proof.
  revert ds; induction cs as [|c cs IH]; intros [|d ds] T Hc Hd; try discriminate.
  - cbn. unfold lex_lt. cbn. split; [discriminate|tauto].
  - cbn [map] in T. injection T as T1 T2. inversion Hc as [|? ? Hc1 Hc2]; inversion Hd as [|? ? Hd1 Hd2]; subst.
    unfold enc_tuple. cbn [map concat tuple_lt]. unfold lex_lt.
    rewrite lex_compare_app_pf by (apply comp_pf; assumption).
    pose proof (comp_order c d T1 Hc1 Hd1) as O. unfold lex_lt in O.
    pose proof (comp_eq_iff c d T1 Hc1 Hd1) as Q.
    destruct (lex_compare (enc_comp c) (enc_comp d)) eqn:E.
    + apply lex_compare_eq in E. fold (enc_tuple cs) (enc_tuple ds).
      specialize (IH ds T2 Hc2 Hd2). unfold lex_lt in IH. rewrite IH.
      split; [intros H; right; split; tauto|].
      intros [H|[_ H]]; [|exact H]. apply O in H. discriminate.
    + split; [intros _; left; tauto|reflexivity].
    + split; [discriminate|]. intros [H|[H _]].
      * apply O in H. discriminate.
      * apply Q in H. rewrite H, lex_compare_refl in E. discriminate.
Qed.

Theorem enc_tuple_eq_iff cs ds :
  map ty_of cs = map ty_of ds -> Forall comp_ok cs -> Forall comp_ok ds ->
  (enc_tuple cs = enc_tuple ds <-> map comp_canon cs = map comp_canon ds).
Proof.
  revert ds; induction cs as [|c cs IH]; intros [|d ds] T Hc Hd; try discriminate.
  - cbn. tauto.
  - cbn [map] in T. injection T as T1 T2. inversion Hc as [|? ? Hc1 Hc2]; inversion Hd as [|? ? Hd1 Hd2]; subst.
    unfold enc_tuple. cbn [map concat]. fold (enc_tuple cs) (enc_tuple ds).
    pose proof (comp_eq_iff c d T1 Hc1 Hd1) as Q. specialize (IH ds T2 Hc2 Hd2).
    split.
    + intros E.
      assert (P : is_prefix (enc_comp c ++ enc_tuple cs) (enc_comp d ++ enc_tuple ds) = true)
        by (rewrite E; apply is_prefix_refl).
      apply is_prefix_app_pf in P; [|apply comp_pf; assumption]. destruct P as [E1 _].
      rewrite E1 in E. apply app_inv_head in E. f_equal; tauto.
    + intros E. injection E as E1 E2. f_equal; tauto.
Qed.

Theorem enc_tuple_prefix_free cs ds :
  map ty_of cs = map ty_of ds -> Forall comp_ok cs -> Forall comp_ok ds ->
  is_prefix (enc_tuple cs) (enc_tuple ds) = true -> enc_tuple cs = enc_tuple ds.
Proof.
  revert ds; induction cs as [|c cs IH]; intros [|d ds] T Hc Hd; try discriminate.
  - reflexivity.
  - cbn [map] in T. injection T as T1 T2. inversion Hc as [|? ? Hc1 Hc2]; inversion Hd as [|? ? Hd1 Hd2]; subst.
    unfold enc_tuple. cbn [map concat]. fold (enc_tuple cs) (enc_tuple ds). intros P.
    apply is_prefix_app_pf in P; [|apply comp_pf; assumption]. destruct P as [E1 P].
    rewrite E1. f_equal. now apply IH.
Qed.

(** * C12: round trips *)

Theorem dec_enc_uint n v : in_u n v -> dec_uint (enc_uint n v) = v.
Proof. apply be_value_be_bytes. Qed.

Theorem dec_enc_int n v : (1 <= n)%nat -> in_i n v -> dec_int (enc_int n v) = v.
Proof.
  unfold in_i, dec_int, enc_int. intros Hn Hv. pose proof (half_double n Hn).
  rewrite be_bytes_length, be_value_be_bytes by lia. lia.
Qed.

Theorem dec_enc_float_word f x : fmt_ok f -> fword f x ->
  dec_float_word f (enc_float_word f x) = fcanon f x.
Proof.
  intros Hf Hx. destruct (fmt_facts f Hf) as (I0 & I1 & M & Q & _).
  unfold fword in *. unfold fcanon, dec_float_word, enc_float_word, f_is_nan, f_is_inf, fneg, fmag, fqnan.
  assert (Hm : 0 < fmsb f) by lia.
  assert (W : 2 ^ fw f = 2 * fmsb f) by (unfold fmax in M; lia).
  pose proof (Z.mod_pos_bound x (fmsb f) Hm) as Bx.
  pose proof (Z.div_mod x (fmsb f) ltac:(lia)) as Dx.
  set (mx := x mod fmsb f) in *.
  assert (Qx : x / fmsb f = 0 \/ x / fmsb f = 1).
  { assert (0 <= x / fmsb f < 2) by (split; [apply Z.div_pos; lia|apply Z.div_lt_upper_bound; lia]). lia. }
  destruct (finf f <? mx) eqn:Nx.
  - rewrite Z.eqb_refl. reflexivity.
  - destruct (mx =? finf f) eqn:Ix.
    + destruct (fmsb f <=? x) eqn:Sx.
      * destruct (0 =? fmax f) eqn:E1; [lia|]. destruct (0 =? fmax f - 1) eqn:E2; [lia|].
        cbn [Z.eqb]. destruct Qx as [Qx|Qx]; rewrite Qx in Dx; lia.
      * destruct (fmax f - 1 =? fmax f) eqn:E1; [lia|]. rewrite Z.eqb_refl.
        destruct Qx as [Qx|Qx]; rewrite Qx in Dx; lia.
    + destruct (fmsb f <=? x) eqn:Sx.
      * destruct (fmax f - x =? fmax f) eqn:E1; [destruct Qx as [Qx|Qx]; rewrite Qx in Dx; lia|].
        destruct (fmax f - x =? fmax f - 1) eqn:E2; [destruct Qx as [Qx|Qx]; rewrite Qx in Dx; lia|].
        destruct (fmax f - x =? 0) eqn:E3; [destruct Qx as [Qx|Qx]; rewrite Qx in Dx; lia|].
        destruct (fmsb f <=? fmax f - x) eqn:E4; [destruct Qx as [Qx|Qx]; rewrite Qx in Dx; lia|]. lia.
      * destruct (x + fmsb f =? fmax f) eqn:E1; [destruct Qx as [Qx|Qx]; rewrite Qx in Dx; lia|].
        destruct (x + fmsb f =? fmax f - 1) eqn:E2; [destruct Qx as [Qx|Qx]; rewrite Qx in Dx; lia|].
        destruct (x + fmsb f =? 0) eqn:E3; [lia|].
        destruct (fmsb f <=? x + fmsb f) eqn:E4; lia.
Qed.

Theorem dec_enc_float f x : fmt_ok f -> fword f x -> dec_float f (enc_float f x) = fcanon f x.
Proof.
  intros Hf Hx. unfold dec_float, enc_float.
  destruct (fmt_facts f Hf) as (_ & _ & _ & _ & W).
  pose proof (enc_float_word_range f x Hf Hx) as R. unfold fword in R. rewrite W in R.
  rewrite be_value_be_bytes by assumption. now apply dec_enc_float_word.
Qed.

Lemma take_app (h r : list Z) : take (length h) (h ++ r) = Some (h, r).
Proof.
  unfold take. rewrite app_length.
  replace (Nat.leb (length h) (length h + length r)) with true by (symmetry; apply Nat.leb_le; lia).
  rewrite firstn_app, Nat.sub_diag, firstn_all, firstn_O, app_nil_r.
  rewrite skipn_app, Nat.sub_diag, skipn_all. reflexivity.
Qed.

Definition fixed_comp (c : comp) : Prop := match c with CText _ => False | _ => True end.

Lemma dec_enc_comp c r : comp_ok c -> fixed_comp c ->
  dec_comp (ty_of c) (enc_comp c ++ r) = Some (comp_canon c, r).
Proof.
  destruct c as [n v|n v|f x|t]; cbn [comp_ok fixed_comp ty_of dec_comp enc_comp comp_canon]; intros Hc Hf; try contradiction.
  - pose proof (take_app (enc_uint n v) r) as T. unfold enc_uint in T at 1. rewrite be_bytes_length in T.
    rewrite T. now rewrite dec_enc_uint.
  - destruct Hc as [Hn Hv]. pose proof (take_app (enc_int n v) r) as T. unfold enc_int in T at 1. rewrite be_bytes_length in T.
    rewrite T. now rewrite dec_enc_int.
  - destruct Hc as [Hf' Hx]. pose proof (take_app (enc_float f x) r) as T. unfold enc_float in T at 1. rewrite be_bytes_length in T.
    rewrite T. now rewrite dec_enc_float.
Qed.

Theorem decode_encode_seq cs : Forall comp_ok cs -> Forall fixed_comp cs ->
  decode_seq (map ty_of cs) (enc_tuple cs) = Some (map comp_canon cs).
Proof.
  induction cs as [|c cs IH]; intros Hc Hf; [reflexivity|].
  inversion Hc; inversion Hf; subst.
  unfold enc_tuple. cbn [map concat decode_seq]. fold (enc_tuple cs).
  rewrite dec_enc_comp by assumption. now rewrite IH.
Qed.

(** * C12: the encoder object *)

Lemma ensure_available_buf s r : e_buf (ensure_available s r) = e_buf s.
Proof. unfold ensure_available. destruct (_ <? _); reflexivity. Qed.

Lemma append_buf s bs : e_buf (append s bs) = e_buf s ++ bs.
Proof. unfold append. cbn. now rewrite ensure_available_buf. Qed.

Lemma enc_step_buf s c : e_buf (enc_step s (EEnc c)) = e_buf s ++ enc_comp c.
Proof.
  destruct c; cbn [enc_step enc_comp]; try apply append_buf.
  rewrite !append_buf, ensure_available_buf. unfold enc_text. now rewrite <- !app_assoc.
Qed.

Theorem enc_run_view s ops : e_buf (enc_run s ops) = since_reset (e_buf s) ops.
Proof.
  unfold enc_run. revert s; induction ops as [|o ops IH]; intros s; cbn [fold_left since_reset]; [reflexivity|].
  rewrite IH. destruct o as [|c]; [reflexivity|]. now rewrite enc_step_buf.
Qed.

(** The buffer never overflows its capacity. *)
Lemma bit_ceil_ge n : n <= bit_ceil n.
Proof.
  unfold bit_ceil. destruct (n <=? 1) eqn:E; [lia|].
  apply Z.log2_up_spec. lia.
Qed.

Definition enc_inv (s : encst) : Prop := Z.of_nat (length (e_buf s)) <= e_cap s.

Lemma ensure_available_inv s r : 0 <= r -> enc_inv s ->
  Z.of_nat (length (e_buf s)) + r <= e_cap (ensure_available s r) /\ e_buf (ensure_available s r) = e_buf s.
Proof.
  unfold enc_inv, ensure_available. intros Hr H.
  destruct (e_cap s <? _) eqn:E; cbn [e_buf e_cap]; split; try reflexivity; [apply bit_ceil_ge|lia].
Qed.

Lemma append_inv s bs : enc_inv s -> enc_inv (append s bs).
Proof.
  intros H. unfold append, enc_inv. cbn [e_buf e_cap].
  destruct (ensure_available_inv s (Z.of_nat (length bs)) ltac:(lia) H) as [H1 H2].
  rewrite H2, app_length. lia.
Qed.

Theorem enc_run_inv s ops : enc_inv s -> enc_inv (enc_run s ops).
Proof.
  unfold enc_run. revert s; induction ops as [|o ops IH]; intros s H; cbn [fold_left]; [exact H|].
  apply IH. destruct o as [|c].
  - unfold enc_inv in *. cbn. lia.
  - destruct c; cbn [enc_step]; repeat apply append_inv; try exact H.
    unfold enc_inv. destruct (ensure_available_inv s (Z.of_nat (length (text_norm t)) + 3) ltac:(lia) H) as [H1 H2].
    rewrite H2. lia.
Qed.
