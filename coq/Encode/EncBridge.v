(** Bridges from the generated definitions (coq/Gen, regenerated from the
    C++ source on every run) to the spec-level encoder model. *)
From Coq Require Import List ZArith Lia Bool.
From Unodb Require Import Base.Lex Base.Bytes Base.ListAux Base.BitsAux Base.GenPrims Encode.EncModel Encode.EncOrder.
From Unodb Require Import Gen.GenEncode Gen.GenFloat.
Import ListNotations.
Local Open Scope Z_scope.

Ltac Zify.zify_post_hook ::= Z.div_mod_to_equations.

(** ** Signed integers: value passed on to the unsigned overload *)

Lemma gen_enc_i8 v : -128 <= v < 128 -> enc_i8 v = v + 128 /\ enc_i8_defined v = true.
Proof.
  intros H. apply (sweep_fun enc_i8 (fun v => v + 128) enc_i8_defined (-128) 256); [vm_compute; reflexivity|lia].
Qed.

Lemma gen_dec_i8 u : 0 <= u < 256 -> dec_i8 u = u - 128 /\ dec_i8_defined u = true.
Proof.
  intros H. apply (sweep_fun dec_i8 (fun u => u - 128) dec_i8_defined 0 256); [vm_compute; reflexivity|lia].
Qed.

Lemma gen_enc_i16 v : -32768 <= v < 32768 -> enc_i16 v = v + 32768 /\ enc_i16_defined v = true.
Proof.
  intros H. apply (sweep_fun enc_i16 (fun v => v + 32768) enc_i16_defined (-32768) 65536); [vm_compute; reflexivity|lia].
Qed.

Lemma gen_dec_i16 u : 0 <= u < 65536 -> dec_i16 u = u - 32768 /\ dec_i16_defined u = true.
Proof.
  intros H. apply (sweep_fun dec_i16 (fun u => u - 32768) dec_i16_defined 0 65536); [vm_compute; reflexivity|lia].
Qed.

Lemma gen_enc_i32 v : -2147483648 <= v < 2147483648 -> enc_i32 v = v + 2147483648 /\ enc_i32_defined v = true.
Proof.
  intros H. unfold enc_i32, enc_i32_defined. cbv zeta.
  destruct (v >=? 0) eqn:E; split; lia.
Qed.

Lemma gen_dec_i32 u : 0 <= u < 4294967296 -> dec_i32 u = u - 2147483648 /\ dec_i32_defined u = true.
Proof.
  intros H. unfold dec_i32, dec_i32_defined. cbv zeta.
  destruct (u >=? 2147483648) eqn:E; split; lia.
Qed.

Lemma gen_enc_i64 v : -9223372036854775808 <= v < 9223372036854775808 ->
  enc_i64 v = v + 9223372036854775808 /\ enc_i64_defined v = true.
Proof.
  intros H. unfold enc_i64, enc_i64_defined. cbv zeta.
  destruct (v >=? 0) eqn:E; split; lia.
Qed.

Lemma gen_dec_i64 u : 0 <= u < 18446744073709551616 ->
  dec_i64 u = u - 9223372036854775808 /\ dec_i64_defined u = true.
Proof.
  intros H. unfold dec_i64, dec_i64_defined. cbv zeta.
  destruct (u >=? 9223372036854775808) eqn:E; split; lia.
Qed.

Lemma gen_maxlen_ok : gen_maxlen = maxlen.
Proof. reflexivity. Qed.

(** The generated value expressions are the model's [enc_int]/[dec_int]
    (composed with the unsigned overload = big-endian bytes). *)
Theorem bridge_enc_int :
  (forall v, in_i 1 v -> enc_int 1 v = enc_uint 1 (enc_i8 v) /\ enc_i8_defined v = true) /\
  (forall v, in_i 2 v -> enc_int 2 v = enc_uint 2 (enc_i16 v) /\ enc_i16_defined v = true) /\
  (forall v, in_i 4 v -> enc_int 4 v = enc_uint 4 (enc_i32 v) /\ enc_i32_defined v = true) /\
  (forall v, in_i 8 v -> enc_int 8 v = enc_uint 8 (enc_i64 v) /\ enc_i64_defined v = true).
Proof.
  unfold in_i, enc_int, enc_uint.
  change (half 1) with 128. change (half 2) with 32768.
  change (half 4) with 2147483648. change (half 8) with 9223372036854775808.
  split; [|split; [|split]]; intros v H.
  - split; [now rewrite (proj1 (gen_enc_i8 v H))|apply gen_enc_i8; exact H].
  - split; [now rewrite (proj1 (gen_enc_i16 v H))|apply gen_enc_i16; exact H].
  - split; [now rewrite (proj1 (gen_enc_i32 v H))|apply gen_enc_i32; exact H].
  - split; [now rewrite (proj1 (gen_enc_i64 v H))|apply gen_enc_i64; exact H].
Qed.

Theorem bridge_dec_int :
  (forall l, bytes_ok l -> length l = 1%nat -> dec_int l = dec_i8 (dec_uint l) /\ dec_i8_defined (dec_uint l) = true) /\
  (forall l, bytes_ok l -> length l = 2%nat -> dec_int l = dec_i16 (dec_uint l) /\ dec_i16_defined (dec_uint l) = true) /\
  (forall l, bytes_ok l -> length l = 4%nat -> dec_int l = dec_i32 (dec_uint l) /\ dec_i32_defined (dec_uint l) = true) /\
  (forall l, bytes_ok l -> length l = 8%nat -> dec_int l = dec_i64 (dec_uint l) /\ dec_i64_defined (dec_uint l) = true).
Proof.
  unfold dec_int, dec_uint.
  split; [|split; [|split]]; intros l B L; pose proof (be_value_bound l B) as R; rewrite L in *.
  - change (half 1) with 128. change (256 ^ Z.of_nat 1) with 256 in R.
    split; [now rewrite (proj1 (gen_dec_i8 _ R))|apply gen_dec_i8; exact R].
  - change (half 2) with 32768. change (256 ^ Z.of_nat 2) with 65536 in R.
    split; [now rewrite (proj1 (gen_dec_i16 _ R))|apply gen_dec_i16; exact R].
  - change (half 4) with 2147483648. change (256 ^ Z.of_nat 4) with 4294967296 in R.
    split; [now rewrite (proj1 (gen_dec_i32 _ R))|apply gen_dec_i32; exact R].
  - change (half 8) with 9223372036854775808. change (256 ^ Z.of_nat 8) with 18446744073709551616 in R.
    split; [now rewrite (proj1 (gen_dec_i64 _ R))|apply gen_dec_i64; exact R].
Qed.

(** ** Floating point *)

Lemma fgt0_inf f x : fmt_ok f -> fword f x -> f_is_inf f x = true -> fgt0 f x = negb (fneg f x).
Proof.
  intros Hf Hx I. destruct (fmt_facts f Hf) as (I0 & I1 & M & Q & _).
  unfold fgt0, f_is_nan, f_is_inf in *. apply Z.eqb_eq in I. rewrite I.
  rewrite Z.ltb_irrefl. cbn [negb andb]. destruct (finf f =? 0) eqn:E; [lia|]. now rewrite andb_true_r.
Qed.

Lemma bridge_encf f (g : Z -> Z) :
  fmt_ok f ->
  (forall x, g x =
     if f_is_nan f x then fmax f
     else if f_is_inf f x then (if fgt0 f x then fmax f - 1 else 0)
     else if Z.land x (fmsb f) =? 0 then Z.lor x (fmsb f) else fmax f - x) ->
  forall x, fword f x -> g x = enc_float_word f x.
Proof.
  intros Hf Hg x Hx. rewrite Hg. unfold enc_float_word.
  destruct (fmt_facts f Hf) as (I0 & I1 & M & Q & _).
  destruct Hf as (F1 & F2 & F3).
  destruct (f_is_nan f x) eqn:N; [reflexivity|].
  destruct (f_is_inf f x) eqn:I.
  - rewrite fgt0_inf by (unfold fmt_ok; auto). destruct (fneg f x); reflexivity.
  - unfold fneg, fmsb, fword in *.
    assert (W : 2 ^ fw f = 2 ^ (fw f - 1 + 1)) by (f_equal; lia).
    destruct (2 ^ (fw f - 1) <=? x) eqn:S.
    + rewrite land_pow2_big by lia.
      assert (P : 0 < 2 ^ (fw f - 1)) by (apply Z.pow_pos_nonneg; lia).
      destruct (2 ^ (fw f - 1) =? 0) eqn:E; [lia|reflexivity].
    + rewrite land_pow2_small by lia. cbn [Z.eqb]. rewrite lor_pow2_small by lia. reflexivity.
Qed.

Theorem bridge_encf32 x : fword f32 x -> encf32 x = enc_float_word f32 x /\ encf32_defined x = true.
Proof.
  intros Hx. split; [|reflexivity]. apply (bridge_encf f32 encf32 f32_ok); [|exact Hx].
  intros y. reflexivity.
Qed.

Theorem bridge_encf64 x : fword f64 x -> encf64 x = enc_float_word f64 x /\ encf64_defined x = true.
Proof.
  intros Hx. split; [|reflexivity]. apply (bridge_encf f64 encf64 f64_ok); [|exact Hx].
  intros y. reflexivity.
Qed.

Lemma bridge_decf f (g : Z -> Z) :
  fmt_ok f ->
  (forall u, g u =
     if u =? fmax f then fqnan f
     else if u =? fmax f - 1 then finf f
     else if u =? 0 then fnegate f (finf f)
     else if negb (Z.land u (fmsb f) =? 0) then Z.lxor u (fmsb f) else fmax f - u) ->
  forall u, fword f u -> g u = dec_float_word f u.
Proof.
  intros Hf Hg u Hu. rewrite Hg. unfold dec_float_word.
  destruct (fmt_facts f Hf) as (I0 & I1 & M & Q & _).
  destruct Hf as (F1 & F2 & F3).
  destruct (u =? fmax f) eqn:E1; [reflexivity|].
  destruct (u =? fmax f - 1) eqn:E2; [reflexivity|].
  destruct (u =? 0) eqn:E3.
  - unfold fnegate, fneg. destruct (fmsb f <=? finf f) eqn:E4; lia.
  - unfold fmsb, fword in *.
    assert (W : 2 ^ fw f = 2 ^ (fw f - 1 + 1)) by (f_equal; lia).
    assert (P : 0 < 2 ^ (fw f - 1)) by (apply Z.pow_pos_nonneg; lia).
    destruct (2 ^ (fw f - 1) <=? u) eqn:S.
    + rewrite land_pow2_big by lia.
      destruct (2 ^ (fw f - 1) =? 0) eqn:E; [lia|]. cbn [negb]. now rewrite lxor_pow2_big by lia.
    + rewrite land_pow2_small by lia. reflexivity.
Qed.

Theorem bridge_decf32 u : fword f32 u -> decf32 u = dec_float_word f32 u /\ decf32_defined u = true.
Proof.
  intros Hu. split; [|reflexivity]. apply (bridge_decf f32 decf32 f32_ok); [|exact Hu].
  intros y. reflexivity.
Qed.

Theorem bridge_decf64 u : fword f64 u -> decf64 u = dec_float_word f64 u /\ decf64_defined u = true.
Proof.
  intros Hu. split; [|reflexivity]. apply (bridge_decf f64 decf64 f64_ok); [|exact Hu].
  intros y. reflexivity.
Qed.
