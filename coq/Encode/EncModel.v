(** M-ENC: executable model of unodb::key_encoder / key_decoder
    (art_common.hpp, duckdb_encode_decode.hpp).  Definitions only. *)
From Coq Require Import List ZArith Bool.
From Unodb Require Import Base.Lex Base.Bytes.
From Unodb Require Export Base.FloatBits.
Import ListNotations.
Local Open Scope Z_scope.

(** * Integers *)

Definition in_u (n : nat) (v : Z) : Prop := 0 <= v < 256 ^ Z.of_nat n.
Definition half (n : nat) : Z := 256 ^ Z.of_nat n / 2.
Definition in_i (n : nat) (v : Z) : Prop := - half n <= v < half n.

Definition enc_uint (n : nat) (v : Z) : list Z := be_bytes n v.
Definition enc_int (n : nat) (v : Z) : list Z := be_bytes n (v + half n).
Definition dec_uint (l : list Z) : Z := be_value l.
Definition dec_int (l : list Z) : Z := be_value l - half (length l).

(** * Floating point, on bit patterns *)

(** encode_floating_point<U,F> *)
Definition enc_float_word (f : ffmt) (x : Z) : Z :=
  if f_is_nan f x then fmax f
  else if f_is_inf f x then (if fneg f x then 0 else fmax f - 1)
  else if fneg f x then fmax f - x
  else x + fmsb f.

(** decode_floating_point<F,U> *)
Definition dec_float_word (f : ffmt) (u : Z) : Z :=
  if u =? fmax f then fqnan f
  else if u =? fmax f - 1 then finf f
  else if u =? 0 then fmsb f + finf f
  else if fmsb f <=? u then u - fmsb f
  else fmax f - u.

Definition enc_float (f : ffmt) (x : Z) : list Z := be_bytes (fbytes f) (enc_float_word f x).
Definition dec_float (f : ffmt) (l : list Z) : Z := dec_float_word f (be_value l).

(** The order of the property text: -inf < negative < -0 < +0 < positive <
    +inf < NaN, all NaNs equal.  Sign-magnitude, independent of the encoding. *)
Definition fclass (f : ffmt) (x : Z) : Z * Z :=
  if f_is_nan f x then (2, 0)
  else if fneg f x then (0, - fmag f x)
  else (1, fmag f x).
Definition pair_lt (p q : Z * Z) : Prop :=
  fst p < fst q \/ (fst p = fst q /\ snd p < snd q).
Definition ftotal_lt (f : ffmt) (x y : Z) : Prop := pair_lt (fclass f x) (fclass f y).
Definition fcanon (f : ffmt) (x : Z) : Z := if f_is_nan f x then fqnan f else x.

(** * Text *)

Definition maxlen : Z := 65535 - 1 - 2.

Fixpoint strip_trailing_zeros (t : list Z) : list Z :=
  match t with
  | [] => []
  | x :: t' =>
      match strip_trailing_zeros t' with
      | [] => if x =? 0 then [] else [x]
      | r => x :: r
      end
  end.
Definition text_norm (t : list Z) : list Z :=
  strip_trailing_zeros (firstn (Z.to_nat maxlen) t).
Definition enc_text (t : list Z) : list Z :=
  let s := text_norm t in
  s ++ [0] ++ be_bytes 2 (maxlen - Z.of_nat (length s)).

Definition no_zero (l : list Z) : Prop := ~ In 0 l.
Definition no_zerob (l : list Z) : bool := negb (existsb (Z.eqb 0) l).
(** The property's "text free of interior zero bytes": after truncation and
    removal of the trailing padding no zero byte is left. *)
Definition NoInteriorZero (t : list Z) : Prop := no_zero (text_norm t).

(** * Components and tuples *)

Inductive cty := TU (n : nat) | TI (n : nat) | TF (f : ffmt) | TText.
Inductive comp := CU (n : nat) (v : Z) | CI (n : nat) (v : Z) | CF (f : ffmt) (bits : Z) | CText (t : list Z).

Definition ty_of (c : comp) : cty :=
  match c with CU n _ => TU n | CI n _ => TI n | CF f _ => TF f | CText _ => TText end.

Definition enc_comp (c : comp) : list Z :=
  match c with
  | CU n v => enc_uint n v
  | CI n v => enc_int n v
  | CF f x => enc_float f x
  | CText t => enc_text t
  end.

Definition enc_tuple (cs : list comp) : list Z := concat (map enc_comp cs).

Definition comp_canon (c : comp) : comp :=
  match c with
  | CF f x => CF f (fcanon f x)
  | CText t => CText (text_norm t)
  | c => c
  end.

(** Fixed widths (C12_width). *)
Definition ty_width (t : cty) : option nat :=
  match t with TU n | TI n => Some n | TF f => Some (fbytes f) | TText => None end.

(** Decoder: a cursor over a byte list.  [None] = out-of-contract read past
    the end of the key (the C++ would read out of bounds). *)
Definition take (n : nat) (l : list Z) : option (list Z * list Z) :=
  if Nat.leb n (length l) then Some (firstn n l, skipn n l) else None.

Definition dec_comp (t : cty) (l : list Z) : option (comp * list Z) :=
  match t with
  | TU n => match take n l with Some (h, r) => Some (CU n (dec_uint h), r) | None => None end
  | TI n => match take n l with Some (h, r) => Some (CI n (dec_int h), r) | None => None end
  | TF f => match take (fbytes f) l with Some (h, r) => Some (CF f (dec_float f h), r) | None => None end
  | TText => None
  end.

Fixpoint decode_seq (ts : list cty) (l : list Z) : option (list comp) :=
  match ts with
  | [] => Some []
  | t :: ts' =>
      match dec_comp t l with
      | Some (c, r) => match decode_seq ts' r with Some cs => Some (c :: cs) | None => None end
      | None => None
      end
  end.

(** * The encoder object: buffer, capacity, reset *)

Record encst := { e_buf : list Z; e_cap : Z }.
Definition enc_init : encst := {| e_buf := []; e_cap := 256 |}.
Definition bit_ceil (n : Z) : Z := if n <=? 1 then 1 else 2 ^ Z.log2_up n.

Definition ensure_available (s : encst) (req : Z) : encst :=
  let need := Z.of_nat (length (e_buf s)) + req in
  if e_cap s <? need then {| e_buf := e_buf s; e_cap := bit_ceil need |} else s.

Definition append (s : encst) (bs : list Z) : encst :=
  let s := ensure_available s (Z.of_nat (length bs)) in
  {| e_buf := e_buf s ++ bs; e_cap := e_cap s |}.

Inductive eop := EReset | EEnc (c : comp).

Definition enc_step (s : encst) (o : eop) : encst :=
  match o with
  | EReset => {| e_buf := []; e_cap := e_cap s |}
  | EEnc (CText t) =>
      let n := text_norm t in
      let s := ensure_available s (Z.of_nat (length n) + 3) in
      let s := append s n in
      let s := append s [0] in
      append s (be_bytes 2 (maxlen - Z.of_nat (length n)))
  | EEnc c => append s (enc_comp c)
  end.

Definition enc_run (s : encst) (ops : list eop) : encst := fold_left enc_step ops s.

(** What a fresh encoder would hold: the encodings since the last reset. *)
Fixpoint since_reset (acc : list Z) (ops : list eop) : list Z :=
  match ops with
  | [] => acc
  | EReset :: ops' => since_reset [] ops'
  | EEnc c :: ops' => since_reset (acc ++ enc_comp c) ops'
  end.
