(** A verified validator for linearizability of map histories: the witness
    (a total order of the completed calls) is found by an untrusted search;
    [lin_ok] checks it, and [lin_ok_sound] shows an accepted witness proves
    linearizability w.r.t. the map specification, respecting real time.
    Definitions only. *)
From Coq Require Import List ZArith Bool.
From Unodb Require Import Base.Lex.
Import ListNotations.
Local Open Scope Z_scope.

(** point operations, and the two successor queries a scan is made of (C09):
    [LNext lo strict hi]: the entry with the least key k such that lo <= k
    (lo < k when strict) and k < hi when an upper bound is given;
    [LPrev hi strict lo]: the mirror image for reverse scans *)
Inductive lop :=
| LGet (k : list Z) | LInsert (k v : list Z) | LRemove (k : list Z)
| LNext (lo : list Z) (strict : bool) (hi : option (list Z))
| LPrev (hi : list Z) (strict : bool) (lo : option (list Z)).
Inductive lres := LVal (o : option (list Z)) | LBool (b : bool) | LEntry (o : option (list Z * list Z)).

(** a completed call: operation, result, invocation and response time stamps *)
Record call := { c_op : lop; c_res : lres; c_inv : nat; c_ret : nat }.

Definition smap := list (list Z * list Z).

Fixpoint s_get (k : list Z) (m : smap) : option (list Z) :=
  match m with [] => None | (k', v) :: m' => if lex_eqb k k' then Some v else s_get k m' end.
Fixpoint s_del (k : list Z) (m : smap) : smap :=
  match m with [] => [] | (k', v) :: m' => if lex_eqb k k' then s_del k m' else (k', v) :: s_del k m' end.

Definition in_next (lo : list Z) (strict : bool) (hi : option (list Z)) (k : list Z) : bool :=
  (if strict then lex_ltb lo k else lex_leb lo k) && match hi with None => true | Some h => lex_ltb k h end.
Definition in_prev (hi : list Z) (strict : bool) (lo : option (list Z)) (k : list Z) : bool :=
  (if strict then lex_ltb k hi else lex_leb k hi) && match lo with None => true | Some l => lex_ltb l k end.

(** the entry with the least (greatest) key satisfying p *)
Fixpoint s_min (p : list Z -> bool) (m : smap) : option (list Z * list Z) :=
  match m with
  | [] => None
  | (k, v) :: m' =>
      let r := s_min p m' in
      if p k then match r with Some (k', _) => if lex_ltb k' k then r else Some (k, v) | None => Some (k, v) end else r
  end.
Fixpoint s_max (p : list Z -> bool) (m : smap) : option (list Z * list Z) :=
  match m with
  | [] => None
  | (k, v) :: m' =>
      let r := s_max p m' in
      if p k then match r with Some (k', _) => if lex_ltb k k' then r else Some (k, v) | None => Some (k, v) end else r
  end.

Definition s_apply (m : smap) (o : lop) : smap * lres :=
  match o with
  | LNext lo strict hi => (m, LEntry (s_min (in_next lo strict hi) m))
  | LPrev hi strict lo => (m, LEntry (s_max (in_prev hi strict lo) m))
  | LGet k => (m, LVal (s_get k m))
  | LInsert k v => match s_get k m with Some _ => (m, LBool false) | None => ((k, v) :: m, LBool true) end
  | LRemove k => match s_get k m with Some _ => (s_del k m, LBool true) | None => (m, LBool false) end
  end.

Definition lres_eqb (a b : lres) : bool :=
  match a, b with
  | LBool x, LBool y => Bool.eqb x y
  | LVal None, LVal None => true
  | LVal (Some x), LVal (Some y) => lex_eqb x y
  | LEntry None, LEntry None => true
  | LEntry (Some (k, v)), LEntry (Some (k', v')) => lex_eqb k k' && lex_eqb v v'
  | _, _ => false
  end.

(** sequential legality of a list of calls executed in the given order from m *)
Fixpoint seq_legal (m : smap) (l : list call) : bool :=
  match l with
  | [] => true
  | c :: l' => let '(m', r) := s_apply m (c_op c) in lres_eqb r (c_res c) && seq_legal m' l'
  end.

(** real-time order: no call is placed after a call that was invoked after it returned *)
Fixpoint rt_ok (l : list call) : bool :=
  match l with
  | [] => true
  | c :: l' => forallb (fun d => negb (c_ret d <? c_inv c)%nat) l' && rt_ok l'
  end.

(** order: a list of indices into h *)
Fixpoint nodupb (l : list nat) : bool :=
  match l with [] => true | x :: l' => negb (existsb (Nat.eqb x) l') && nodupb l' end.

Definition pick (h : list call) (order : list nat) : option (list call) :=
  fold_right (fun i acc => match nth_error h i, acc with Some c, Some l => Some (c :: l) | _, _ => None end) (Some []) order.

Definition lin_ok (init : smap) (h : list call) (order : list nat) : bool :=
  Nat.eqb (length order) (length h) && nodupb order &&
  match pick h order with
  | Some l => rt_ok l && seq_legal init l
  | None => false
  end.
