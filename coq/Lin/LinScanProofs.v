(** C09, second part, proofs: in a legal, real-time respecting sequence of
    calls the successor queries of a forward scan form an abstract scan
    ([scan_fwd], Olc/ScanSpec.v) over the maps the sequence goes through. *)
From Coq Require Import List ZArith Bool Lia Arith.
From Unodb Require Import Base.Lex Lin.LinCheck Olc.ScanSpec Lin.LinScan.
Import ListNotations.
Local Open Scope Z_scope.

(** * real-time order and positions *)

Lemma rt_before : forall l i j c d,
  rt_ok l = true -> (j < i)%nat -> nth_error l j = Some d -> nth_error l i = Some c ->
  (c_ret c <? c_inv d)%nat = false.
Proof.
  induction l as [|x l IH]; intros i j c d Hrt Hji Hj Hi.
  - destruct j; discriminate.
  - cbn [rt_ok] in Hrt. apply andb_true_iff in Hrt as [Hall Hrt].
    destruct i as [|i]; [lia|]. cbn [nth_error] in Hi.
    destruct j as [|j]; cbn [nth_error] in Hj.
    + injection Hj as Hxd. subst x.
      rewrite forallb_forall in Hall. apply nth_error_In in Hi.
      apply Hall in Hi. now apply negb_true_iff in Hi.
    + apply (IH i j c d Hrt); [lia|exact Hj|exact Hi].
Qed.

Lemma rt_positions : forall l i j c d,
  rt_ok l = true -> nth_error l i = Some c -> nth_error l j = Some d -> i <> j ->
  (c_ret c < c_inv d)%nat -> (i < j)%nat.
Proof.
  intros l i j c d Hrt Hi Hj Hne Hlt.
  destruct (Nat.lt_trichotomy i j) as [H|[H|H]]; [exact H|contradiction|].
  pose proof (rt_before l i j c d Hrt H Hj Hi) as Hf.
  apply Nat.ltb_ge in Hf. lia.
Qed.

(** * the boolean order tests *)

Lemma lex_eqb_eq a b : lex_eqb a b = true -> a = b.
Proof.
  unfold lex_eqb. intros H. apply lex_compare_eq.
  destruct (lex_compare a b); [reflexivity|discriminate|discriminate].
Qed.

Lemma lex_eqb_refl a : lex_eqb a a = true.
Proof. unfold lex_eqb. now rewrite lex_compare_refl. Qed.

Lemma lex_ltb_lt a b : lex_ltb a b = true <-> lex_lt a b.
Proof.
  unfold lex_ltb, lex_lt. destruct (lex_compare a b); split; intros H;
    try reflexivity; discriminate.
Qed.

Lemma lex_ltb_irrefl a : lex_ltb a a = false.
Proof. unfold lex_ltb. now rewrite lex_compare_refl. Qed.

Lemma lex_ltb_not_eqb a b : lex_ltb a b = true -> lex_eqb a b = false.
Proof. unfold lex_ltb, lex_eqb. destruct (lex_compare a b); intros H; try reflexivity; discriminate. Qed.

Lemma lex_ltb_asym a b : lex_ltb a b = true -> lex_ltb b a = false.
Proof.
  unfold lex_ltb. rewrite (lex_compare_antisym a b).
  destruct (lex_compare a b); cbn [CompOpp]; intros H; try reflexivity; discriminate.
Qed.

(** c <= b and b <= a give c <= a *)
Lemma lex_ltb_false_trans a b c :
  lex_ltb a b = false -> lex_ltb b c = false -> lex_ltb a c = false.
Proof.
  intros Hab Hbc. destruct (lex_ltb a c) eqn:Hac; [|reflexivity]. exfalso.
  apply lex_ltb_lt in Hac.
  destruct (lex_trichotomy b c) as [Hlt|[Heq|Hgt]].
  - apply lex_ltb_lt in Hlt. congruence.
  - subst c. apply lex_ltb_lt in Hac. congruence.
  - pose proof (lex_lt_trans a c b Hac Hgt) as Hl. apply lex_ltb_lt in Hl. congruence.
Qed.

(** one-element keys compare like their integers *)
Lemma lex_compare_single a b : lex_compare [a] [b] = Z.compare a b.
Proof. cbn [lex_compare]. destruct (a ?= b); reflexivity. Qed.

Lemma lex_ltb_single a b : lex_ltb [a] [b] = true <-> a < b.
Proof.
  unfold lex_ltb. rewrite lex_compare_single. unfold Z.lt.
  destruct (a ?= b); split; intros H; try reflexivity; discriminate.
Qed.

Lemma lex_leb_single a b : lex_leb [a] [b] = true <-> a <= b.
Proof.
  unfold lex_leb. rewrite lex_compare_single. unfold Z.le.
  destruct (a ?= b); split; intros H; try reflexivity; try discriminate.
  exfalso. now apply H.
Qed.

Lemma in_next_single b s k : in_next [b] s None [k] = true <-> nonstrict_bound b s <= k.
Proof.
  unfold in_next, nonstrict_bound. rewrite andb_true_r. destruct s.
  - rewrite lex_ltb_single. lia.
  - rewrite lex_leb_single. lia.
Qed.

(** * [s_min] finds the entry [s_get] sees at the least admissible key *)

Definition s_min_spec (p : list Z -> bool) (m : smap) (r : option (list Z * list Z)) : Prop :=
  match r with
  | Some (k, v) =>
      p k = true /\ s_get k m = Some v /\
      forall k', p k' = true -> s_get k' m <> None -> lex_ltb k' k = false
  | None => forall k', p k' = true -> s_get k' m = None
  end.

Lemma s_min_ok p m : s_min_spec p m (s_min p m).
Proof.
  induction m as [|[k v] m IH]; cbn [s_min].
  - intros k' _. reflexivity.
  - destruct (p k) eqn:Hpk.
    + destruct (s_min p m) as [[k1 v1]|] eqn:Hr; cbn [s_min_spec] in IH.
      * destruct IH as (Hp1 & Hg1 & Hl1).
        destruct (lex_ltb k1 k) eqn:Hlt; cbn [s_min_spec].
        -- split; [exact Hp1|]. split.
           ++ cbn [s_get]. rewrite (lex_ltb_not_eqb _ _ Hlt). exact Hg1.
           ++ intros k' Hp' Hg'. cbn [s_get] in Hg'. destruct (lex_eqb k' k) eqn:He.
              ** apply lex_eqb_eq in He. subst k'. apply lex_ltb_asym. exact Hlt.
              ** apply Hl1; assumption.
        -- split; [exact Hpk|]. split.
           ++ cbn [s_get]. rewrite lex_eqb_refl. reflexivity.
           ++ intros k' Hp' Hg'. cbn [s_get] in Hg'. destruct (lex_eqb k' k) eqn:He.
              ** apply lex_eqb_eq in He. subst k'. apply lex_ltb_irrefl.
              ** specialize (Hl1 k' Hp' Hg').
                 exact (lex_ltb_false_trans k' k1 k Hl1 Hlt).
      * cbn [s_min_spec]. split; [exact Hpk|]. split.
        -- cbn [s_get]. rewrite lex_eqb_refl. reflexivity.
        -- intros k' Hp' Hg'. cbn [s_get] in Hg'. destruct (lex_eqb k' k) eqn:He.
           ++ apply lex_eqb_eq in He. subst k'. apply lex_ltb_irrefl.
           ++ exfalso. apply Hg'. apply IH. exact Hp'.
    + assert (Hne : forall k', p k' = true -> lex_eqb k' k = false).
      { intros k' Hp'. destruct (lex_eqb k' k) eqn:He; [|reflexivity].
        apply lex_eqb_eq in He. subst k'. congruence. }
      destruct (s_min p m) as [[k1 v1]|] eqn:Hr; cbn [s_min_spec] in IH |- *.
      * destruct IH as (Hp1 & Hg1 & Hl1). split; [exact Hp1|]. split.
        -- cbn [s_get]. rewrite (Hne k1 Hp1). exact Hg1.
        -- intros k' Hp' Hg'. cbn [s_get] in Hg'. rewrite (Hne k' Hp') in Hg'.
           apply Hl1; assumption.
      * intros k' Hp'. cbn [s_get]. rewrite (Hne k' Hp'). apply IH. exact Hp'.
Qed.

(** * legal sequences: every call returns what the map before it dictates *)

Lemma seq_legal_nth : forall l init i c,
  seq_legal init l = true -> nth_error l i = Some c ->
  lres_eqb (snd (s_apply (state_at init l i) (c_op c))) (c_res c) = true.
Proof.
  induction l as [|x l IH]; intros init i c Hleg Hi.
  - destruct i; discriminate.
  - cbn [seq_legal] in Hleg. destruct (s_apply init (c_op x)) as [m' r] eqn:Ha.
    apply andb_true_iff in Hleg as [Hr Hleg].
    destruct i as [|i]; cbn [nth_error] in Hi.
    + injection Hi as Hxc. subst x. cbn [state_at]. rewrite Ha. exact Hr.
    + cbn [state_at]. rewrite Ha. cbn [fst]. apply IH; assumption.
Qed.

Lemma query_min : forall init l i c b s r,
  seq_legal init l = true -> nth_error l i = Some c -> is_query c b s r ->
  s_min (in_next [b] s None) (state_at init l i) =
  match r with Some (k, v) => Some ([k], v) | None => None end.
Proof.
  intros init l i c b s r Hleg Hi [Hop Hres].
  pose proof (seq_legal_nth l init i c Hleg Hi) as H.
  rewrite Hop, Hres in H. cbn [s_apply snd] in H.
  destruct (s_min (in_next [b] s None) (state_at init l i)) as [[k0 v0]|];
    destruct r as [[k v]|]; cbn [lres_eqb] in H; try discriminate; [|reflexivity].
  apply andb_true_iff in H as [Hk Hv].
  apply lex_eqb_eq in Hk. apply lex_eqb_eq in Hv. now subst.
Qed.

Lemma query_delivers : forall f init l i c b s k v,
  seq_legal init l = true -> nth_error l i = Some c -> is_query c b s (Some (k, v)) ->
  least_ge (H_of f init l i) (nonstrict_bound b s) k /\ H_of f init l i k = Some (f v).
Proof.
  intros f init l i c b s k v Hleg Hi Hq.
  pose proof (query_min init l i c b s _ Hleg Hi Hq) as Hmin.
  pose proof (s_min_ok (in_next [b] s None) (state_at init l i)) as Hspec.
  rewrite Hmin in Hspec. cbn [s_min_spec] in Hspec. destruct Hspec as (Hp & Hg & Hl).
  assert (HH : H_of f init l i k = Some (f v)).
  { unfold H_of. rewrite Hg. reflexivity. }
  split; [|exact HH]. unfold least_ge. split; [now apply in_next_single|]. split.
  - rewrite HH. discriminate.
  - intros k' Hlo Hlt. unfold H_of.
    destruct (s_get [k'] (state_at init l i)) as [v'|] eqn:Hg'; [|reflexivity]. exfalso.
    assert (Hf : lex_ltb [k'] [k] = false).
    { apply Hl; [now apply in_next_single|]. rewrite Hg'. discriminate. }
    apply lex_ltb_single in Hlt. congruence.
Qed.

(** * the chain of queries of a scan is an abstract scan *)

Lemma scan_fwd_earlier : forall H t t' lo ds,
  (t' <= t)%nat -> scan_fwd H t lo ds -> scan_fwd H t' lo ds.
Proof.
  intros H t t' lo ds Hle Hs. inversion Hs as [|t0 lo0 t1 k v ds0 Ht Hl Hv Hrest]; subst.
  - apply sf_nil.
  - eapply sf_cons; eauto. lia.
Qed.

Lemma chain_scan_fwd : forall f init l p b s ds,
  seq_legal init l = true -> chain l p b s ds ->
  scan_fwd (H_of f init l) p (nonstrict_bound b s) (deliveries f ds).
Proof.
  intros f init l p b s ds Hleg Hc.
  induction Hc as [p b s|p b s i c k v ds Hpi Hi Hq Hc IH]; cbn [deliveries map fst snd].
  - apply sf_nil.
  - destruct (query_delivers f init l i c b s k v Hleg Hi Hq) as [Hl Hv].
    apply sf_cons with (t1 := i); [exact Hpi|exact Hl|exact Hv|].
    apply scan_fwd_earlier with (t := S i); [lia|]. exact IH.
Qed.

Lemma chain_exhausted : forall f init l i c b s,
  seq_legal init l = true -> nth_error l i = Some c -> is_query c b s None ->
  exhausted (H_of f init l) i (nonstrict_bound b s).
Proof.
  intros f init l i c b s Hleg Hi Hq k Hk.
  pose proof (query_min init l i c b s _ Hleg Hi Hq) as Hmin.
  pose proof (s_min_ok (in_next [b] s None) (state_at init l i)) as Hspec.
  rewrite Hmin in Hspec. cbn [s_min_spec] in Hspec.
  unfold H_of. rewrite (Hspec [k]); [reflexivity|]. now apply in_next_single.
Qed.

Print Assumptions rt_positions.
Print Assumptions chain_scan_fwd.
Print Assumptions chain_exhausted.
