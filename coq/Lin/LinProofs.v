(** Soundness of the linearizability witness validator [lin_ok] of Lin/LinCheck.v:
    an accepted order yields a permutation of the history that respects real
    time and is sequentially legal. *)
From Coq Require Import List ZArith Bool Arith Lia Permutation.
From Unodb Require Import Lin.LinCheck.
Import ListNotations.

Lemma nodupb_NoDup : forall l, nodupb l = true -> NoDup l.
Proof.
  induction l as [|x l IH]; intros H.
  - constructor.
  - cbn [nodupb] in H. apply andb_true_iff in H. destruct H as [Hx Hl].
    constructor.
    + intros Hin. apply negb_true_iff in Hx.
      assert (Hex : existsb (Nat.eqb x) l = true).
      { apply existsb_exists. exists x. split; [exact Hin | apply Nat.eqb_refl]. }
      rewrite Hex in Hx. discriminate Hx.
    + apply IH. exact Hl.
Qed.

Lemma pick_spec : forall (h : list call) (d : call) order l,
  pick h order = Some l ->
  l = map (fun i => nth i h d) order /\ Forall (fun i => i < length h) order.
Proof.
  intros h d. induction order as [|i order IH]; intros l H.
  - cbn in H. inversion H. split; [reflexivity | constructor].
  - unfold pick in H. cbn [fold_right] in H. fold (pick h order) in H.
    destruct (nth_error h i) as [c|] eqn:Hi; [|discriminate H].
    destruct (pick h order) as [l'|] eqn:Hp; [|discriminate H].
    inversion H; subst l. clear H.
    destruct (IH l' eq_refl) as [Hl Hall].
    split.
    + cbn [map]. rewrite (nth_error_nth h i d Hi). f_equal. exact Hl.
    + constructor; [|exact Hall].
      apply nth_error_Some. rewrite Hi. discriminate.
Qed.

Lemma map_nth_seq : forall (A : Type) (d : A) (h : list A),
  map (fun i => nth i h d) (seq 0 (length h)) = h.
Proof.
  intros A d. induction h as [|a h IH].
  - reflexivity.
  - cbn [length seq map nth]. f_equal.
    rewrite <- seq_shift, map_map. exact IH.
Qed.

Lemma pick_perm : forall (h : list call) order l,
  length order = length h -> NoDup order -> pick h order = Some l -> Permutation l h.
Proof.
  intros h order l Hlen Hnd Hp.
  destruct h as [|d h'].
  - destruct order; [|discriminate Hlen]. cbn in Hp. inversion Hp. constructor.
  - remember (d :: h') as h eqn:Hh.
    destruct (pick_spec h d order l Hp) as [Hl Hall].
    assert (Hperm : Permutation order (seq 0 (length h))).
    { apply NoDup_Permutation_bis.
      - exact Hnd.
      - rewrite seq_length, Hlen. apply le_n.
      - intros i Hin. apply in_seq. rewrite Forall_forall in Hall.
        specialize (Hall i Hin). lia. }
    apply (Permutation_map (fun i => nth i h d)) in Hperm.
    rewrite map_nth_seq in Hperm. rewrite Hl. exact Hperm.
Qed.

Theorem lin_ok_sound : forall init h order,
  lin_ok init h order = true ->
  exists l, Permutation l h /\ rt_ok l = true /\ seq_legal init l = true.
Proof.
  intros init h order H. unfold lin_ok in H.
  apply andb_true_iff in H. destruct H as [H Hpick].
  apply andb_true_iff in H. destruct H as [Hlen Hnd].
  apply Nat.eqb_eq in Hlen. apply nodupb_NoDup in Hnd.
  destruct (pick h order) as [l|] eqn:Hp; [|discriminate Hpick].
  apply andb_true_iff in Hpick. destruct Hpick as [Hrt Hseq].
  exists l. split; [|split].
  - exact (pick_perm h order l Hlen Hnd Hp).
  - exact Hrt.
  - exact Hseq.
Qed.
