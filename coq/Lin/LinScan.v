(** C09: from a validated linearization that contains the successor queries
    of a scan to the abstract scan of Olc/ScanSpec.v.  The harness turns every
    scan of an execution into a chain of [LNext] calls (first: least key >= the
    bound; then: least key > the key just delivered; last: nothing found) and
    the verified validator [lin_ok] accepts an order of all calls.  Here: in
    any legal sequence the queries of such a chain form a [scan_fwd] over the
    history of maps the sequence goes through, so the C09 theorems apply to
    the recorded scan.  (Forward scans without upper bound, integer keys as
    one-element byte lists -- the form the OLC harness uses.)  Definitions only. *)
From Coq Require Import List ZArith Bool.
From Unodb Require Import Base.Lex Lin.LinCheck Olc.ScanSpec.
Import ListNotations.
Local Open Scope Z_scope.

(** the map before the t-th call of the sequence (the final map when t is past the end) *)
Fixpoint state_at (m : smap) (l : list call) (t : nat) : smap :=
  match t, l with
  | S t', c :: l' => state_at (fst (s_apply m (c_op c))) l' t'
  | _, _ => m
  end.

(** the history of maps, read at integer keys; values through an arbitrary encoding f *)
Definition H_of (f : list Z -> Z) (init : smap) (l : list call) : history :=
  fun t k => option_map f (s_get [k] (state_at init l t)).

Definition is_query (c : call) (bound : Z) (strict : bool) (r : option (Z * list Z)) : Prop :=
  c_op c = LNext [bound] strict None /\
  c_res c = LEntry (match r with Some (k, v) => Some ([k], v) | None => None end).

(** the queries of one scan inside a sequence: positions strictly increase,
    each query's bound is the key delivered by the previous one (strict) *)
Inductive chain (l : list call) : nat -> Z -> bool -> list (nat * Z * list Z) -> Prop :=
| ch_nil : forall p b s, chain l p b s []
| ch_cons : forall p b s i c k v ds,
    (p <= i)%nat -> nth_error l i = Some c -> is_query c b s (Some (k, v)) ->
    chain l (S i) k true ds -> chain l p b s ((i, k, v) :: ds).

Definition nonstrict_bound (b : Z) (s : bool) : Z := if s then b + 1 else b.

Definition deliveries (f : list Z -> Z) (ds : list (nat * Z * list Z)) : list (nat * Z * Z) :=
  map (fun d => (fst (fst d), snd (fst d), f (snd d))) ds.
