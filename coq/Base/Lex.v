(** Lexicographic (byte-wise) order on lists of integers: the order the index
    uses on binary-comparable keys (art_internal.hpp [compare]: memcmp on the
    shared length, then the shorter key first). *)
From Coq Require Import List ZArith Lia Bool.
Import ListNotations.
Local Open Scope Z_scope.

Fixpoint lex_compare (a b : list Z) : comparison :=
  match a, b with
  | [], [] => Eq
  | [], _ :: _ => Lt
  | _ :: _, [] => Gt
  | x :: a', y :: b' =>
      match Z.compare x y with
      | Eq => lex_compare a' b'
      | c => c
      end
  end.

Definition lex_lt (a b : list Z) : Prop := lex_compare a b = Lt.
Definition lex_ltb (a b : list Z) : bool :=
  match lex_compare a b with Lt => true | _ => false end.
Definition lex_leb (a b : list Z) : bool :=
  match lex_compare a b with Gt => false | _ => true end.
Definition lex_eqb (a b : list Z) : bool :=
  match lex_compare a b with Eq => true | _ => false end.

Fixpoint is_prefix (a b : list Z) : bool :=
  match a, b with
  | [], _ => true
  | _ :: _, [] => false
  | x :: a', y :: b' => Z.eqb x y && is_prefix a' b'
  end.

Lemma lex_compare_refl a : lex_compare a a = Eq.
Proof. induction a as [|x a IH]; cbn; [reflexivity|]. now rewrite Z.compare_refl. Qed.

Lemma lex_compare_eq a b : lex_compare a b = Eq <-> a = b.
Proof.
  revert b; induction a as [|x a IH]; intros [|y b]; cbn; split; intros H;
    try reflexivity; try discriminate.
  - destruct (Z.compare_spec x y) as [E|L|G]; try discriminate.
    subst; f_equal; now apply IH.
  - injection H as -> ->. rewrite Z.compare_refl. now apply IH.
Qed.

Lemma lex_compare_antisym a b : lex_compare b a = CompOpp (lex_compare a b).
Proof.
  revert b; induction a as [|x a IH]; intros [|y b]; cbn; try reflexivity.
  rewrite (Z.compare_antisym x y).
  destruct (Z.compare x y); cbn; auto.
Qed.

Lemma lex_lt_irrefl a : ~ lex_lt a a.
Proof. unfold lex_lt; now rewrite lex_compare_refl. Qed.

Lemma lex_lt_trans a b c : lex_lt a b -> lex_lt b c -> lex_lt a c.
Proof.
  unfold lex_lt. revert b c; induction a as [|x a IH]; intros [|y b] [|z c]; cbn;
    try discriminate; try reflexivity.
  destruct (Z.compare_spec x y) as [E|L|G]; try discriminate.
  - subst y. destruct (Z.compare_spec x z); try discriminate; auto. intros; eapply IH; eauto.
  - intros _. destruct (Z.compare_spec y z) as [E|L'|G']; try discriminate; intros _.
    + subst z. now apply Z.compare_lt_iff in L as ->.
    + assert (x < z) as ->%Z.compare_lt_iff by lia. reflexivity.
Qed.

Lemma lex_lt_gt a b : lex_compare a b = Gt <-> lex_lt b a.
Proof.
  unfold lex_lt. rewrite (lex_compare_antisym a b).
  destruct (lex_compare a b); cbn; split; intro; try discriminate; reflexivity.
Qed.

Lemma lex_trichotomy a b : lex_lt a b \/ a = b \/ lex_lt b a.
Proof.
  destruct (lex_compare a b) eqn:E.
  - right; left; now apply lex_compare_eq.
  - now left.
  - right; right; now apply lex_lt_gt.
Qed.

Lemma lex_compare_app_same p a b : lex_compare (p ++ a) (p ++ b) = lex_compare a b.
Proof. induction p as [|x p IH]; cbn; [reflexivity|]. now rewrite Z.compare_refl. Qed.

(** Same-length lists: the comparison of concatenations is decided by the
    first components unless they are equal. *)
Lemma lex_compare_app a a' b b' :
  length a = length b ->
  lex_compare (a ++ a') (b ++ b') =
  match lex_compare a b with Eq => lex_compare a' b' | c => c end.
Proof.
  revert b; induction a as [|x a IH]; intros [|y b] L; cbn in *; try discriminate.
  - reflexivity.
  - destruct (Z.compare x y); auto.
Qed.

Lemma is_prefix_spec a b : is_prefix a b = true <-> exists c, b = a ++ c.
Proof.
  revert b; induction a as [|x a IH]; intros b; cbn.
  - split; [intros _; now exists b|reflexivity].
  - destruct b as [|y b]; [split; [discriminate|intros [c H]; discriminate]|].
    rewrite andb_true_iff, Z.eqb_eq, IH. split.
    + intros [-> [c ->]]. now exists c.
    + intros [c H]. injection H as -> ->. split; [reflexivity|now exists c].
Qed.

Lemma is_prefix_refl a : is_prefix a a = true.
Proof. apply is_prefix_spec. exists []. now rewrite app_nil_r. Qed.

Lemma is_prefix_same_length a b : is_prefix a b = true -> length a = length b -> a = b.
Proof.
  intros [c ->]%is_prefix_spec L. rewrite app_length in L.
  destruct c; [now rewrite app_nil_r|cbn in L; lia].
Qed.

(** A proper prefix is smaller. *)
Lemma lex_lt_proper_prefix a c : c <> [] -> lex_lt a (a ++ c).
Proof.
  intros Hc. unfold lex_lt. rewrite <- (app_nil_r a) at 1. rewrite lex_compare_app_same.
  destruct c; [contradiction|reflexivity].
Qed.
