(** Single-bit mask facts used by the bridges (sign bit set / clear / flip). *)
From Coq Require Import ZArith Lia Bool.
Local Open Scope Z_scope.

Lemma land_pow2_small x k : 0 <= k -> 0 <= x < 2 ^ k -> Z.land x (2 ^ k) = 0.
Proof.
  intros Hk Hx. apply Z.bits_inj'. intros n Hn. rewrite Z.land_spec, Z.bits_0.
  rewrite Z.pow2_bits_eqb by lia. destruct (Z.eqb_spec k n) as [<-|Hne]; [|apply andb_false_r].
  rewrite andb_true_r. destruct (Z.eq_dec x 0) as [->|Hx0]; [apply Z.bits_0|].
  apply Z.bits_above_log2; [lia|]. apply Z.log2_lt_pow2; lia.
Qed.

Lemma lor_pow2_small x k : 0 <= k -> 0 <= x < 2 ^ k -> Z.lor x (2 ^ k) = x + 2 ^ k.
Proof.
  intros Hk Hx. pose proof (land_pow2_small x k Hk Hx) as L.
  rewrite <- Z.lxor_lor by exact L. symmetry. now apply Z.add_nocarry_lxor.
Qed.

Lemma split_high x k : 0 <= k -> 2 ^ k <= x < 2 ^ (k + 1) -> x = Z.lxor (x - 2 ^ k) (2 ^ k) /\ 0 <= x - 2 ^ k < 2 ^ k.
Proof.
  intros Hk Hx. rewrite Z.pow_add_r in Hx by lia. change (2 ^ 1) with 2 in Hx.
  assert (R : 0 <= x - 2 ^ k < 2 ^ k) by lia. split; [|exact R].
  rewrite <- Z.add_nocarry_lxor by (now apply land_pow2_small). lia.
Qed.

Lemma land_pow2_big x k : 0 <= k -> 2 ^ k <= x < 2 ^ (k + 1) -> Z.land x (2 ^ k) = 2 ^ k.
Proof.
  intros Hk Hx. destruct (split_high x k Hk Hx) as [E R].
  set (r := x - 2 ^ k) in *. rewrite E.
  pose proof (land_pow2_small r k Hk R) as L.
  rewrite Z.lxor_lor by exact L. rewrite Z.land_lor_distr_l, L, Z.land_diag. reflexivity.
Qed.

Lemma lxor_pow2_big x k : 0 <= k -> 2 ^ k <= x < 2 ^ (k + 1) -> Z.lxor x (2 ^ k) = x - 2 ^ k.
Proof.
  intros Hk Hx. destruct (split_high x k Hk Hx) as [E R].
  rewrite E at 1. rewrite Z.lxor_assoc, Z.lxor_nilpotent, Z.lxor_0_r. reflexivity.
Qed.

(** a single-bit mask extracts that bit *)
Lemma land_pow2_bit a n : 0 <= n -> Z.land a (2 ^ n) = Z.b2z (Z.testbit a n) * 2 ^ n.
Proof.
  intros Hn. apply Z.bits_inj'. intros m Hm.
  rewrite Z.land_spec, Z.pow2_bits_eqb by lia.
  destruct (Z.eqb_spec n m) as [<-|Hne].
  - rewrite andb_true_r. rewrite Z.mul_pow2_bits by lia. rewrite Z.sub_diag. symmetry. apply Z.b2z_bit0.
  - rewrite andb_false_r. symmetry. destruct (Z.ltb_spec m n) as [Lt|Ge].
    + apply Z.mul_pow2_bits_low. lia.
    + rewrite Z.mul_pow2_bits by lia. destruct (Z.testbit a n); cbn [Z.b2z].
      * apply Z.bits_above_log2; [lia|]. cbn. lia.
      * apply Z.bits_0.
Qed.

Lemma land_2 a : 0 <= a -> Z.land a 2 = 2 * ((a / 2) mod 2).
Proof.
  intros Ha. change 2 with (2 ^ 1) at 1. rewrite land_pow2_bit by lia.
  rewrite Z.testbit_spec' by lia. change (2 ^ 1) with 2. lia.
Qed.

Lemma land_3 a : Z.land a 3 = a mod 4.
Proof. change 3 with (Z.ones 2). rewrite Z.land_ones by lia. reflexivity. Qed.
