(** Big-endian / little-endian byte strings of machine words, byte swap. *)
From Coq Require Import List ZArith Lia Bool.
From Unodb Require Import Base.Lex.
Import ListNotations.
Local Open Scope Z_scope.

Definition is_byte (b : Z) : Prop := 0 <= b < 256.
Definition is_byteb (b : Z) : bool := (0 <=? b) && (b <? 256).
Definition bytes_ok (l : list Z) : Prop := Forall is_byte l.

(** [be_bytes n v]: the n-byte big-endian representation of v (most
    significant byte first); v is reduced modulo 256^n. *)
Fixpoint be_bytes (n : nat) (v : Z) : list Z :=
  match n with
  | O => []
  | S n' => (v / 256 ^ Z.of_nat n') mod 256 :: be_bytes n' v
  end.

(** [le_bytes n v]: what memcpy from a little-endian word reads. *)
Fixpoint le_bytes (n : nat) (v : Z) : list Z :=
  match n with
  | O => []
  | S n' => v mod 256 :: le_bytes n' (v / 256)
  end.

Fixpoint be_value (l : list Z) : Z :=
  match l with
  | [] => 0
  | b :: l' => b * 256 ^ Z.of_nat (length l') + be_value l'
  end.

Fixpoint le_value (l : list Z) : Z :=
  match l with
  | [] => 0
  | b :: l' => b + 256 * le_value l'
  end.

(** Byte swap of an n-byte word. *)
Definition bswap (n : nat) (v : Z) : Z := le_value (be_bytes n v).

Lemma be_bytes_length n v : length (be_bytes n v) = n.
Proof. induction n; cbn; auto. Qed.

Lemma le_bytes_length n v : length (le_bytes n v) = n.
Proof. revert v; induction n; intros; cbn; auto. Qed.

Lemma pow256_pos n : 0 < 256 ^ Z.of_nat n.
Proof. apply Z.pow_pos_nonneg; lia. Qed.

Lemma pow256_S n : 256 ^ Z.of_nat (S n) = 256 * 256 ^ Z.of_nat n.
Proof. rewrite Nat2Z.inj_succ, Z.pow_succ_r by lia. reflexivity. Qed.

Lemma be_bytes_ok n v : bytes_ok (be_bytes n v).
Proof.
  induction n; cbn; constructor; auto.
  unfold is_byte. apply Z.mod_pos_bound; lia.
Qed.

Lemma le_bytes_ok n v : bytes_ok (le_bytes n v).
Proof.
  revert v; induction n as [|n IH]; intros v; cbn [le_bytes]; constructor.
  - unfold is_byte. apply Z.mod_pos_bound; lia.
  - apply IH.
Qed.

Lemma mod_mul_div p v : 0 < p -> (v mod (p * 256)) / p = (v / p) mod 256.
Proof.
  intros P. rewrite Z.rem_mul_r by lia.
  rewrite (Z.mul_comm p ((v / p) mod 256)), Z.div_add by lia.
  rewrite (Z.div_small (v mod p) p) by (apply Z.mod_pos_bound; lia). lia.
Qed.

Lemma mod_mul_mod p v : 0 < p -> (v mod (p * 256)) mod p = v mod p.
Proof.
  intros P. rewrite Z.rem_mul_r by lia.
  rewrite (Z.mul_comm p ((v / p) mod 256)), Z.mod_add by lia. apply Z.mod_mod; lia.
Qed.

Lemma be_bytes_mod n v : be_bytes n (v mod 256 ^ Z.of_nat n) = be_bytes n v.
Proof.
  revert v; induction n as [|n IH]; intros v; cbn [be_bytes]; [reflexivity|].
  rewrite pow256_S.
  pose proof (pow256_pos n) as P. set (p := 256 ^ Z.of_nat n) in *.
  rewrite (Z.mul_comm 256 p). f_equal.
  - rewrite mod_mul_div by lia. apply Z.mod_mod; lia.
  - rewrite <- (IH (v mod _)), <- (IH v). f_equal. fold p. apply mod_mul_mod; lia.
Qed.

Lemma be_value_be_bytes n v : 0 <= v < 256 ^ Z.of_nat n -> be_value (be_bytes n v) = v.
Proof.
  revert v; induction n as [|n IH]; intros v Hv; cbn [be_bytes be_value].
  - cbn in Hv. lia.
  - rewrite be_bytes_length. rewrite pow256_S in Hv.
    pose proof (pow256_pos n) as P.
    rewrite <- be_bytes_mod, IH by (apply Z.mod_pos_bound; lia).
    remember (256 ^ Z.of_nat n) as p eqn:Ep.
    rewrite (Z.mod_small (v / p)).
    + rewrite Z.mul_comm. symmetry. apply Z.div_mod; lia.
    + split; [apply Z.div_pos; lia|]. apply Z.div_lt_upper_bound; lia.
Qed.

Lemma be_value_bound l : bytes_ok l -> 0 <= be_value l < 256 ^ Z.of_nat (length l).
Proof.
  induction 1 as [|b l Hb Hl IH]; cbn [be_value length]; [cbn; lia|].
  rewrite pow256_S. unfold is_byte in Hb. nia.
Qed.

Lemma be_bytes_be_value l : bytes_ok l -> be_bytes (length l) (be_value l) = l.
Proof.
  induction 1 as [|b l Hb Hl IH]; cbn [be_value length be_bytes]; [reflexivity|].
  pose proof (be_value_bound l Hl) as B.
  pose proof (pow256_pos (length l)) as P.
  unfold is_byte in Hb.
  f_equal.
  - remember (256 ^ Z.of_nat (length l)) as p eqn:Ep.
    rewrite Z.div_add_l by lia. rewrite Z.div_small by lia. rewrite Z.add_0_r.
    apply Z.mod_small; lia.
  - rewrite <- be_bytes_mod.
    remember (256 ^ Z.of_nat (length l)) as p eqn:Ep.
    rewrite Z.add_comm, Z.mod_add by lia.
    rewrite Z.mod_small by lia. subst p. exact IH.
Qed.

Lemma be_bytes_inj n a b :
  0 <= a < 256 ^ Z.of_nat n -> 0 <= b < 256 ^ Z.of_nat n ->
  be_bytes n a = be_bytes n b -> a = b.
Proof.
  intros Ha Hb E. rewrite <- (be_value_be_bytes n a Ha), <- (be_value_be_bytes n b Hb).
  now rewrite E.
Qed.

(** The central order lemma: big-endian byte strings of equal width compare
    like the numbers they denote. *)
Lemma be_bytes_compare n a b :
  0 <= a < 256 ^ Z.of_nat n -> 0 <= b < 256 ^ Z.of_nat n ->
  lex_compare (be_bytes n a) (be_bytes n b) = Z.compare a b.
Proof.
  revert a b; induction n as [|n IH]; intros a b Ha Hb.
  - cbn in *. assert (a = 0) by lia. assert (b = 0) by lia. subst. reflexivity.
  - cbn [be_bytes lex_compare]. rewrite pow256_S in Ha, Hb.
    pose proof (pow256_pos n) as P.
    rewrite <- (be_bytes_mod n a), <- (be_bytes_mod n b).
    pose proof (Z.mod_pos_bound a _ P) as Ra.
    pose proof (Z.mod_pos_bound b _ P) as Rb.
    rewrite (IH _ _ Ra Rb).
    remember (256 ^ Z.of_nat n) as p eqn:Ep.
    assert (Hqa : 0 <= a / p < 256).
    { split; [apply Z.div_pos; lia|apply Z.div_lt_upper_bound; lia]. }
    assert (Hqb : 0 <= b / p < 256).
    { split; [apply Z.div_pos; lia|apply Z.div_lt_upper_bound; lia]. }
    rewrite !(Z.mod_small (_ / p) 256) by lia.
    pose proof (Z.div_mod a p ltac:(lia)) as Da. pose proof (Z.div_mod b p ltac:(lia)) as Db.
    destruct (Z.compare_spec (a / p) (b / p)) as [E|L|G].
    + destruct (Z.compare_spec (a mod p) (b mod p)); symmetry;
        [apply Z.compare_eq_iff|apply Z.compare_lt_iff|apply Z.compare_gt_iff]; nia.
    + symmetry. apply Z.compare_lt_iff. nia.
    + symmetry. apply Z.compare_gt_iff. nia.
Qed.

Lemma le_value_le_bytes n v : 0 <= v < 256 ^ Z.of_nat n -> le_value (le_bytes n v) = v.
Proof.
  revert v; induction n as [|n IH]; intros v Hv; cbn [le_bytes le_value].
  - cbn in Hv; lia.
  - rewrite pow256_S in Hv. rewrite IH.
    + pose proof (Z.div_mod v 256 ltac:(lia)). lia.
    + split; [apply Z.div_pos; lia|apply Z.div_lt_upper_bound; lia].
Qed.

Lemma le_value_bound l : bytes_ok l -> 0 <= le_value l < 256 ^ Z.of_nat (length l).
Proof.
  induction 1 as [|b l Hb Hl IH]; cbn [le_value length]; [cbn; lia|].
  rewrite pow256_S. unfold is_byte in Hb. nia.
Qed.

Lemma le_bytes_le_value l : bytes_ok l -> le_bytes (length l) (le_value l) = l.
Proof.
  induction 1 as [|b l Hb Hl IH]; cbn [le_value length le_bytes]; [reflexivity|].
  unfold is_byte in Hb. f_equal.
  - rewrite (Z.mul_comm 256), Z.mod_add by lia. apply Z.mod_small; lia.
  - rewrite (Z.mul_comm 256), Z.div_add by lia. rewrite Z.div_small by lia. exact IH.
Qed.

(** memcpy of a byte-swapped word writes the big-endian bytes. *)
Lemma le_bytes_bswap n v : le_bytes n (bswap n v) = be_bytes n v.
Proof.
  unfold bswap. pose proof (le_bytes_le_value (be_bytes n v) (be_bytes_ok n v)) as H.
  now rewrite be_bytes_length in H.
Qed.

Lemma bswap_bound n v : 0 <= bswap n v < 256 ^ Z.of_nat n.
Proof.
  unfold bswap. pose proof (le_value_bound (be_bytes n v) (be_bytes_ok n v)) as H.
  now rewrite be_bytes_length in H.
Qed.

Lemma le_value_snoc l b : le_value (l ++ [b]) = le_value l + b * 256 ^ Z.of_nat (length l).
Proof.
  induction l as [|x l IH]; cbn [le_value app length].
  - cbn. lia.
  - rewrite IH, pow256_S. lia.
Qed.

Lemma be_value_le_value_rev l : be_value l = le_value (rev l).
Proof.
  induction l as [|b l IH]; cbn [be_value rev]; [reflexivity|].
  rewrite le_value_snoc, rev_length, IH. lia.
Qed.

(** Reading a big-endian byte string through memcpy + bswap yields its value. *)
Lemma bswap_le_value l : bytes_ok l -> bswap (length l) (le_value l) = be_value l.
Proof.
  intros H. unfold bswap.
  assert (Hr : bytes_ok (rev l)) by (apply Forall_rev; exact H).
  rewrite <- (rev_involutive l) at 2. rewrite <- be_value_le_value_rev.
  rewrite <- (rev_length l). rewrite be_bytes_be_value by exact Hr.
  symmetry. apply be_value_le_value_rev.
Qed.
