(** Byte-memory primitives the generated comparison functions
    (coq/Gen/GenCompare.v, tools/cxx2v_mem.py) refer to.  Definitions only.

    A pointer is modelled by the list of bytes of the object / region it
    points into (from the pointer onwards), a byte span ([unodb::key_view]) by
    the list of bytes it views. *)
From Coq Require Import List ZArith Bool.
From Unodb Require Import Base.Bytes.
Import ListNotations.
Local Open Scope Z_scope.

(** sign of the first differing pair of two byte strings read in step
    (unsigned bytes; 0 when no pair differs) *)
Fixpoint memcmp_sign (a b : list Z) : Z :=
  match a, b with
  | x :: a', y :: b' => if x <? y then -1 else if y <? x then 1 else memcmp_sign a' b'
  | _, _ => 0
  end.

(** std::memcmp(a, b, n): only its sign is specified by the standard *)
Definition memcmp (a b : list Z) (n : Z) : Z :=
  memcmp_sign (firstn (Z.to_nat n) a) (firstn (Z.to_nat n) b).

(** the n bytes read exist in both regions *)
Definition memcmp_defined (a b : list Z) (n : Z) : bool :=
  (0 <=? n) && (n <=? Z.of_nat (length a)) && (n <=? Z.of_nat (length b)).

(** span::data() / span::size_bytes() of a byte span *)
Definition span_data (s : list Z) : list Z := s.
Definition span_size_bytes (s : list Z) : Z := Z.of_nat (length s).

(** object representation of an integral object of n bytes (little-endian
    target, asserted in the translation unit) *)
Definition int_object_bytes (n : Z) (v : Z) : list Z := le_bytes (Z.to_nat n) v.

(** object representation of the span OBJECT itself: its data pointer and its
    extent.  It depends on the address [addr] of the viewed buffer, which is
    not a function of the viewed bytes: a generated function that mentions it
    has the address as a parameter. *)
Definition span_object_size : Z := 16.
Definition span_object_bytes (addr : Z) (s : list Z) : list Z :=
  le_bytes 8 addr ++ le_bytes 8 (Z.of_nat (length s)).
