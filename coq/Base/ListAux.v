(** Small list helpers: integer ranges for exhaustive finite sweeps. *)
From Coq Require Import List ZArith Lia Bool.
Import ListNotations.
Local Open Scope Z_scope.

Fixpoint zrange (lo : Z) (n : nat) : list Z :=
  match n with O => [] | S n' => lo :: zrange (lo + 1) n' end.

Lemma zrange_In lo n v : lo <= v < lo + Z.of_nat n -> In v (zrange lo n).
Proof.
  revert lo; induction n as [|n IH]; intros lo H; [lia|].
  cbn [zrange]. destruct (Z.eq_dec lo v) as [->|Hne]; [now left|right].
  apply IH. lia.
Qed.

(** A boolean predicate that holds on every element of a range holds on the
    interval: the lifting lemma for finite sweeps closed by [vm_compute]. *)
Lemma sweep_range (P : Z -> bool) lo n :
  forallb P (zrange lo n) = true -> forall v, lo <= v < lo + Z.of_nat n -> P v = true.
Proof. intros H v Hv. rewrite forallb_forall in H. apply H. now apply zrange_In. Qed.

Lemma sweep_fun (f g : Z -> Z) (d : Z -> bool) lo n :
  forallb (fun v => (f v =? g v) && d v) (zrange lo (Z.to_nat n)) = true ->
  forall v, lo <= v < lo + n -> f v = g v /\ d v = true.
Proof.
  intros H v Hv. assert (Hv' : lo <= v < lo + Z.of_nat (Z.to_nat n)) by lia.
  pose proof (sweep_range _ lo _ H v Hv') as S. cbn beta in S.
  apply andb_true_iff in S as [S1 S2]. apply Z.eqb_eq in S1. tauto.
Qed.
