(** Primitives the generated definitions (coq/Gen) refer to. *)
From Coq Require Import ZArith Bool.
From Unodb Require Export Base.FloatBits Base.Bytes.
Local Open Scope Z_scope.

(** std::countr_zero on a w-bit word (w for zero). *)
Fixpoint ctz_pos (p : positive) : Z :=
  match p with xO p' => 1 + ctz_pos p' | _ => 0 end.
Definition countr_zero (w : Z) (x : Z) : Z :=
  match x with Zpos p => ctz_pos p | _ => w end.
