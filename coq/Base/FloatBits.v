(** IEEE-754 binary interchange formats as bit patterns (unsigned words). *)
From Coq Require Import ZArith Bool.
Local Open Scope Z_scope.

Record ffmt := { fw : Z (* total bits *); fm : Z (* mantissa bits *) }.
Definition f32 : ffmt := {| fw := 32; fm := 23 |}.
Definition f64 : ffmt := {| fw := 64; fm := 52 |}.
Definition fbytes (f : ffmt) : nat := Z.to_nat (fw f / 8).

Definition fmsb (f : ffmt) : Z := 2 ^ (fw f - 1).
Definition fmax (f : ffmt) : Z := 2 ^ fw f - 1.
Definition finf (f : ffmt) : Z := (2 ^ (fw f - 1 - fm f) - 1) * 2 ^ fm f.
Definition fqnan (f : ffmt) : Z := finf f + 2 ^ (fm f - 1).
Definition fmag (f : ffmt) (x : Z) : Z := x mod fmsb f.
Definition fneg (f : ffmt) (x : Z) : bool := fmsb f <=? x.
Definition f_is_nan (f : ffmt) (x : Z) : bool := finf f <? fmag f x.
Definition f_is_inf (f : ffmt) (x : Z) : bool := fmag f x =? finf f.


(** [x > 0] on a float given by its bit pattern: not NaN, sign clear, non-zero. *)
Definition fgt0 (f : ffmt) (x : Z) : bool :=
  negb (f_is_nan f x) && negb (fneg f x) && negb (fmag f x =? 0).
(** unary minus flips the sign bit *)
Definition fnegate (f : ffmt) (x : Z) : Z := if fneg f x then x - fmsb f else x + fmsb f.
