(** Little-endian byte strings inside machine words: general facts used by the
    key-prefix bridge (coq/Art/ArtPrefixBridge.v).
    - count-trailing-zeros arithmetic ([countr_zero] of Base.GenPrims);
    - [le_bytes] / [le_value] under shifts, masks and sums of disjoint fields;
    - disjoint [Z.lor] is addition;
    - the length of the common byte prefix of two words is
      countr_zero (a xor b | sentinel) / 8. *)
From Coq Require Import List ZArith Lia Bool.
From Unodb Require Import Base.Bytes Base.GenPrims Base.BitsAux.
Import ListNotations.
Local Open Scope Z_scope.

Ltac Zify.zify_post_hook ::= Z.div_mod_to_equations.

(** * Powers of 256 *)

Lemma pow256_add a b : 256 ^ Z.of_nat (a + b) = 256 ^ Z.of_nat a * 256 ^ Z.of_nat b.
Proof. rewrite Nat2Z.inj_add, Z.pow_add_r by lia. reflexivity. Qed.

Lemma pow256_pow2 n : 256 ^ Z.of_nat n = 2 ^ (8 * Z.of_nat n).
Proof. rewrite Z.pow_mul_r by lia. reflexivity. Qed.

Lemma pow256_pow2_Z n : 0 <= n -> 2 ^ (8 * n) = 256 ^ Z.of_nat (Z.to_nat n).
Proof. intros H. rewrite pow256_pow2, Z2Nat.id by lia. reflexivity. Qed.

Lemma pow256_le a b : (a <= b)%nat -> 256 ^ Z.of_nat a <= 256 ^ Z.of_nat b.
Proof. intros H. apply Z.pow_le_mono_r; lia. Qed.

(** * count trailing zeros *)

Lemma countr_zero_odd w x : 0 < x -> x mod 2 = 1 -> countr_zero w x = 0.
Proof.
  intros Hx Ho. destruct x as [|p|p]; try lia.
  destruct p as [p|p|]; cbn [countr_zero ctz_pos]; try reflexivity.
  exfalso. rewrite Pos2Z.inj_xO in Ho. lia.
Qed.

Lemma countr_zero_double w x : 0 < x -> countr_zero w (2 * x) = 1 + countr_zero w x.
Proof. intros Hx. destruct x as [|p|p]; try lia. reflexivity. Qed.

Lemma countr_zero_nonneg w x : 0 < x -> 0 <= countr_zero w x.
Proof.
  intros Hx. destruct x as [|p|p]; try lia. cbn [countr_zero].
  induction p; cbn [ctz_pos]; lia.
Qed.

Lemma countr_zero_mul_pow2 w x k :
  0 < x -> countr_zero w (2 ^ Z.of_nat k * x) = Z.of_nat k + countr_zero w x.
Proof.
  intros Hx. induction k as [|k IH].
  - cbn [Z.of_nat]. rewrite Z.pow_0_r, Z.mul_1_l. lia.
  - rewrite Nat2Z.inj_succ, Z.pow_succ_r by lia.
    rewrite <- Z.mul_assoc, countr_zero_double, IH; [lia|].
    apply Z.mul_pos_pos; [apply Z.pow_pos_nonneg; lia|exact Hx].
Qed.

Lemma countr_zero_lt w x k :
  0 < x -> x mod 2 ^ Z.of_nat k <> 0 -> countr_zero w x < Z.of_nat k.
Proof.
  revert x; induction k as [|k IH]; intros x Hx Hm.
  - cbn [Z.of_nat] in Hm. rewrite Z.pow_0_r, Z.mod_1_r in Hm. lia.
  - rewrite Nat2Z.inj_succ, Z.pow_succ_r in Hm by lia.
    destruct (Z.eq_dec (x mod 2) 1) as [Ho|He].
    + rewrite countr_zero_odd by assumption. lia.
    + assert (Hx2 : x = 2 * (x / 2)) by lia.
      assert (Hpos : 0 < x / 2) by lia.
      rewrite Hx2, countr_zero_double by exact Hpos.
      assert (Hm' : (x / 2) mod 2 ^ Z.of_nat k <> 0).
      { intros E. apply Hm. rewrite Hx2 at 1.
        rewrite Z.mul_mod_distr_l by (try apply Z.pow_nonzero; lia). lia. }
      specialize (IH _ Hpos Hm'). lia.
Qed.

(** * bit-level helpers *)

Lemma testbit_small a k n : 0 <= a < 2 ^ k -> k <= n -> Z.testbit a n = false.
Proof.
  intros Ha Hn. destruct (Z.eq_dec a 0) as [->|Hz]; [apply Z.bits_0|].
  assert (0 <= k) by (destruct (Z.le_gt_cases 0 k); [assumption|rewrite Z.pow_neg_r in Ha; lia]).
  apply Z.bits_above_log2; [lia|]. apply Z.lt_le_trans with k; [|exact Hn].
  apply Z.log2_lt_pow2; lia.
Qed.

(** fields that do not overlap: [lor] is [+] *)
Lemma lor_add_disjoint a b k : 0 <= k -> 0 <= a < 2 ^ k -> Z.lor a (b * 2 ^ k) = a + b * 2 ^ k.
Proof.
  intros Hk Ha.
  assert (L : Z.land a (b * 2 ^ k) = 0).
  { apply Z.bits_inj'. intros n Hn. rewrite Z.land_spec, Z.bits_0.
    destruct (Z.lt_ge_cases n k) as [Lt|Ge].
    - rewrite Z.mul_pow2_bits_low by lia. apply andb_false_r.
    - rewrite (testbit_small a k n) by lia. reflexivity. }
  rewrite <- Z.lxor_lor by exact L. symmetry. now apply Z.add_nocarry_lxor.
Qed.

Lemma land_ones_mod a n : 0 <= n -> Z.land a (2 ^ n - 1) = a mod 2 ^ n.
Proof. intros Hn. rewrite <- Z.land_ones by exact Hn. rewrite Z.ones_equiv. reflexivity. Qed.

Lemma lxor_div256 a b : Z.lxor a b / 256 = Z.lxor (a / 256) (b / 256).
Proof.
  change 256 with (2 ^ 8). rewrite <- !Z.shiftr_div_pow2 by lia. apply Z.shiftr_lxor.
Qed.

Lemma lxor_mod256 a b : Z.lxor a b mod 256 = Z.lxor (a mod 256) (b mod 256).
Proof.
  change 256 with (2 ^ 8). rewrite <- !Z.land_ones by lia.
  apply Z.bits_inj'. intros n Hn. rewrite Z.lxor_spec, !Z.land_spec, Z.lxor_spec.
  destruct (Z.testbit (Z.ones 8) n); now rewrite ?andb_false_r, ?andb_true_r.
Qed.

Lemma lor_div256 a b : Z.lor a b / 256 = Z.lor (a / 256) (b / 256).
Proof.
  change 256 with (2 ^ 8). rewrite <- !Z.shiftr_div_pow2 by lia. apply Z.shiftr_lor.
Qed.

Lemma lor_mod256 a b : Z.lor a b mod 256 = Z.lor (a mod 256) (b mod 256).
Proof.
  change 256 with (2 ^ 8). rewrite <- !Z.land_ones by lia.
  apply Z.bits_inj'. intros n Hn. rewrite Z.lor_spec, !Z.land_spec, Z.lor_spec.
  destruct (Z.testbit (Z.ones 8) n); now rewrite ?andb_false_r, ?andb_true_r.
Qed.

(** * le_bytes / le_value *)

Lemma mod_mul_div_low q v : 0 < q -> (v mod (256 * q)) / 256 = (v / 256) mod q.
Proof.
  intros Q. rewrite Z.rem_mul_r by lia.
  rewrite (Z.mul_comm 256 ((v / 256) mod q)), Z.div_add by lia.
  rewrite (Z.div_small (v mod 256) 256) by (apply Z.mod_pos_bound; lia). lia.
Qed.

Lemma mod_mul_mod_low q v : 0 < q -> (v mod (256 * q)) mod 256 = v mod 256.
Proof.
  intros Q. rewrite Z.rem_mul_r by lia.
  rewrite (Z.mul_comm 256 ((v / 256) mod q)), Z.mod_add by lia. apply Z.mod_mod; lia.
Qed.

(** the low [k] bytes ignore anything at or above byte [m >= k] *)
Lemma le_bytes_add_high k m a b :
  (k <= m)%nat -> le_bytes k (a + b * 256 ^ Z.of_nat m) = le_bytes k a.
Proof.
  revert m a b; induction k as [|k IH]; intros m a b Hk; [reflexivity|].
  destruct m as [|m]; [lia|]. cbn [le_bytes]. rewrite pow256_S.
  replace (a + b * (256 * 256 ^ Z.of_nat m)) with (a + (b * 256 ^ Z.of_nat m) * 256) by ring.
  rewrite Z.mod_add, Z.div_add by lia. f_equal. apply IH. lia.
Qed.

Lemma le_bytes_mod k m a :
  (k <= m)%nat -> le_bytes k (a mod 256 ^ Z.of_nat m) = le_bytes k a.
Proof.
  revert m a; induction k as [|k IH]; intros m a Hk; [reflexivity|].
  destruct m as [|m]; [lia|]. cbn [le_bytes]. rewrite pow256_S.
  pose proof (pow256_pos m) as P.
  rewrite mod_mul_mod_low, mod_mul_div_low by exact P. f_equal. apply IH. lia.
Qed.

Lemma firstn_le_bytes k n w : (k <= n)%nat -> firstn k (le_bytes n w) = le_bytes k w.
Proof.
  revert n w; induction k as [|k IH]; intros n w Hk; [reflexivity|].
  destruct n as [|n]; [lia|]. cbn [le_bytes firstn]. f_equal. apply IH. lia.
Qed.

Lemma skipn_le_bytes n k w : skipn n (le_bytes (n + k) w) = le_bytes k (w / 256 ^ Z.of_nat n).
Proof.
  revert w; induction n as [|n IH]; intros w.
  - cbn [skipn plus Z.of_nat]. rewrite Z.pow_0_r, Z.div_1_r. reflexivity.
  - cbn [plus le_bytes skipn]. rewrite IH, pow256_S.
    pose proof (pow256_pos n) as P. rewrite Z.div_div by lia. reflexivity.
Qed.

Lemma le_value_le_bytes_mod k w : le_value (le_bytes k w) = w mod 256 ^ Z.of_nat k.
Proof.
  revert w; induction k as [|k IH]; intros w.
  - cbn [le_bytes le_value Z.of_nat]. rewrite Z.pow_0_r, Z.mod_1_r. reflexivity.
  - cbn [le_bytes le_value]. rewrite IH, pow256_S.
    pose proof (pow256_pos k) as P. rewrite Z.rem_mul_r by lia. reflexivity.
Qed.

Lemma le_value_app l1 l2 :
  le_value (l1 ++ l2) = le_value l1 + le_value l2 * 256 ^ Z.of_nat (length l1).
Proof.
  induction l1 as [|x l1 IH]; cbn [app le_value length].
  - cbn [Z.of_nat]. rewrite Z.pow_0_r. lia.
  - rewrite IH, pow256_S. ring.
Qed.

Lemma le_bytes_nil_length n w : length (le_bytes n w) = n.
Proof. apply le_bytes_length. Qed.

Lemma nth_le_bytes n w i :
  (i < n)%nat -> nth i (le_bytes n w) 0 = (w / 256 ^ Z.of_nat i) mod 256.
Proof.
  revert w i; induction n as [|n IH]; intros w i Hi; [lia|].
  destruct i as [|i]; cbn [le_bytes nth].
  - cbn [Z.of_nat]. rewrite Z.pow_0_r, Z.div_1_r. reflexivity.
  - rewrite IH by lia. rewrite pow256_S. pose proof (pow256_pos i) as P.
    rewrite Z.div_div by lia. reflexivity.
Qed.

Lemma bytes_ok_app l1 l2 : bytes_ok l1 -> bytes_ok l2 -> bytes_ok (l1 ++ l2).
Proof. intros H1 H2. apply Forall_app. split; assumption. Qed.

Lemma bytes_ok_firstn n l : bytes_ok l -> bytes_ok (firstn n l).
Proof.
  unfold bytes_ok. revert n; induction l as [|x l IH]; intros [|n] H; cbn [firstn]; try constructor.
  - now inversion H.
  - apply IH. now inversion H.
Qed.

Lemma bytes_ok_skipn n l : bytes_ok l -> bytes_ok (skipn n l).
Proof.
  unfold bytes_ok. revert n; induction l as [|x l IH]; intros [|n] H; cbn [skipn]; try assumption.
  apply IH. now inversion H.
Qed.

Lemma bytes_ok_tl l : bytes_ok l -> bytes_ok (tl l).
Proof. intros H. destruct H; cbn [tl]; [constructor|assumption]. Qed.

Lemma is_byte_hd l : bytes_ok l -> is_byte (hd 0 l).
Proof. intros H. destruct H; cbn [hd]; [unfold is_byte; lia|assumption]. Qed.

(** * zero-padded windows: the first [m] bytes of [l ++ 0 0 0 ...] *)

Fixpoint take_pad (m : nat) (l : list Z) : list Z :=
  match m with
  | O => []
  | S m' => hd 0 l :: take_pad m' (tl l)
  end.

Lemma take_pad_length m l : length (take_pad m l) = m.
Proof. revert l; induction m; intros; cbn [take_pad length]; auto. Qed.

Lemma take_pad_ok m l : bytes_ok l -> bytes_ok (take_pad m l).
Proof.
  revert l; induction m as [|m IH]; intros l H; cbn [take_pad]; constructor.
  - now apply is_byte_hd.
  - apply IH. now apply bytes_ok_tl.
Qed.

Lemma firstn_app_repeat m k l :
  (m <= k)%nat -> firstn m (l ++ repeat 0 k) = take_pad m l.
Proof.
  revert k l; induction m as [|m IH]; intros k l Hk; [reflexivity|].
  destruct l as [|x l]; cbn [app take_pad hd tl].
  - destruct k as [|k]; [lia|]. cbn [repeat firstn]. f_equal.
    rewrite <- (IH k []) by lia. reflexivity.
  - cbn [firstn]. f_equal. apply IH. lia.
Qed.

Lemma firstn_take_pad k m l : (k <= m)%nat -> firstn k (take_pad m l) = take_pad k l.
Proof.
  revert m l; induction k as [|k IH]; intros m l Hk; [reflexivity|].
  destruct m as [|m]; [lia|]. cbn [take_pad firstn]. f_equal. apply IH. lia.
Qed.

Lemma take_pad_exact l : take_pad (length l) l = l.
Proof. induction l as [|x l IH]; cbn [length take_pad hd tl]; [reflexivity|now rewrite IH]. Qed.

(** memcpy of a whole window into a zeroed word and back *)
Lemma le_bytes_le_value_take_pad m l :
  bytes_ok l -> le_bytes m (le_value (take_pad m l)) = take_pad m l.
Proof.
  intros H. pose proof (le_bytes_le_value (take_pad m l) (take_pad_ok m l H)) as E.
  now rewrite take_pad_length in E.
Qed.

(** * common byte prefix of two words *)

Fixpoint common_bytes (n : nat) (a b : Z) : nat :=
  match n with
  | O => O
  | S n' => if a mod 256 =? b mod 256 then S (common_bytes n' (a / 256) (b / 256)) else O
  end.

Lemma common_bytes_le n a b : (common_bytes n a b <= n)%nat.
Proof.
  revert a b; induction n as [|n IH]; intros a b; cbn [common_bytes]; [lia|].
  destruct (_ =? _); [specialize (IH (a / 256) (b / 256))|]; lia.
Qed.

Lemma common_bytes_mod n m a b :
  (n <= m)%nat -> common_bytes n (a mod 256 ^ Z.of_nat m) b = common_bytes n a b.
Proof.
  revert m a b; induction n as [|n IH]; intros m a b Hn; [reflexivity|].
  destruct m as [|m]; [lia|]. cbn [common_bytes]. rewrite pow256_S.
  pose proof (pow256_pos m) as P.
  rewrite mod_mul_mod_low, mod_mul_div_low by exact P. rewrite IH by lia. reflexivity.
Qed.

(** xor the words, put a sentinel bit at byte [n], count trailing zero bits, divide by 8 *)
Theorem ctz_xor_common_bytes w n a b :
  0 <= a -> 0 <= b ->
  countr_zero w (Z.lor (Z.lxor a b) (2 ^ (8 * Z.of_nat n))) / 8 = Z.of_nat (common_bytes n a b).
Proof.
  revert a b; induction n as [|n IH]; intros a b Ha Hb.
  - cbn [Z.of_nat common_bytes]. rewrite Z.mul_0_r, Z.pow_0_r.
    assert (Hx : 0 <= Z.lxor a b) by (apply Z.lxor_nonneg; lia).
    assert (Hl : 0 <= Z.lor (Z.lxor a b) 1) by (apply Z.lor_nonneg; lia).
    assert (Ho : Z.lor (Z.lxor a b) 1 mod 2 = 1).
    { rewrite <- Z.bit0_mod, Z.lor_spec. change (Z.testbit 1 0) with true.
      rewrite orb_true_r. reflexivity. }
    rewrite countr_zero_odd by lia. reflexivity.
  - cbn [common_bytes].
    set (x := Z.lxor a b). set (s := 2 ^ (8 * Z.of_nat (S n))).
    assert (Hs : s = 256 * 2 ^ (8 * Z.of_nat n)).
    { unfold s. rewrite Nat2Z.inj_succ. replace (8 * Z.succ (Z.of_nat n)) with (8 + 8 * Z.of_nat n) by lia.
      rewrite Z.pow_add_r by lia. reflexivity. }
    assert (Hsp : 0 < 2 ^ (8 * Z.of_nat n)) by (apply Z.pow_pos_nonneg; lia).
    assert (Hx : 0 <= x) by (apply Z.lxor_nonneg; lia).
    set (y := Z.lor x s).
    assert (Hy : 0 <= y) by (apply Z.lor_nonneg; lia).
    assert (Hyd : y / 256 = Z.lor (Z.lxor (a / 256) (b / 256)) (2 ^ (8 * Z.of_nat n))).
    { unfold y, x. rewrite lor_div256, lxor_div256, Hs. f_equal.
      rewrite Z.mul_comm, Z.div_mul by lia. reflexivity. }
    assert (Hym : y mod 256 = Z.lxor (a mod 256) (b mod 256)).
    { unfold y, x. rewrite lor_mod256, lxor_mod256, Hs.
      rewrite Z.mul_comm, Z.mod_mul by lia. apply Z.lor_0_r. }
    assert (Hy'pos : 0 < y / 256).
    { rewrite Hyd.
      assert (0 <= Z.lxor (a / 256) (b / 256)) by (apply Z.lxor_nonneg; split; intros _; apply Z.div_pos; lia).
      assert (L : 0 <= Z.lor (Z.lxor (a / 256) (b / 256)) (2 ^ (8 * Z.of_nat n))) by (apply Z.lor_nonneg; lia).
      destruct (Z.eq_dec (Z.lor (Z.lxor (a / 256) (b / 256)) (2 ^ (8 * Z.of_nat n))) 0) as [E|E]; [|lia].
      apply Z.lor_eq_0_iff in E. lia. }
    destruct (Z.eqb_spec (a mod 256) (b mod 256)) as [E|E].
    + rewrite E, Z.lxor_nilpotent in Hym.
      assert (Y : y = 2 ^ Z.of_nat 8 * (y / 256)) by (change (2 ^ Z.of_nat 8) with 256; lia).
      rewrite Y, countr_zero_mul_pow2 by exact Hy'pos. change (Z.of_nat 8) with 8.
      rewrite Hyd. specialize (IH (a / 256) (b / 256) ltac:(apply Z.div_pos; lia) ltac:(apply Z.div_pos; lia)).
      rewrite Nat2Z.inj_succ, <- IH.
      set (c := countr_zero w _).
      replace (8 + c) with (c + 1 * 8) by ring. rewrite Z.div_add by lia. lia.
    + assert (Hne : y mod 256 <> 0).
      { rewrite Hym. intros Z0. apply Z.lxor_eq in Z0. contradiction. }
      assert (Hpos : 0 < y) by lia.
      pose proof (countr_zero_lt w y 8 Hpos Hne) as U.
      pose proof (countr_zero_nonneg w y Hpos) as L.
      change (Z.of_nat 8) with 8 in U. cbn [Z.of_nat]. apply Z.div_small. lia.
Qed.

(** * generic list helpers *)

Lemma nth_firstn_lt {A} (l : list A) d n i : (i < n)%nat -> nth i (firstn n l) d = nth i l d.
Proof.
  revert n i; induction l as [|x l IH]; intros [|n] [|i] H; cbn [firstn nth]; try reflexivity; try lia.
  apply IH. lia.
Qed.
