(** Extraction of the executable models (ExtrOcamlBasic only; N/Z/positive
    stay Coq's extracted datatypes). *)
From Coq Require Import List ZArith.
From Coq Require Extraction ExtrOcamlBasic.
From Unodb Require Import Base.Lex Base.Bytes Encode.EncModel.
Extraction Language OCaml.
Extraction "model.ml"
  enc_init enc_step enc_run decode_seq ty_of ty_width lex_compare f32 f64 enc_tuple comp_canon.
