(** Extraction of the executable models (ExtrOcamlBasic only; N/Z/positive
    stay Coq's extracted datatypes). *)
From Coq Require Import List ZArith.
From Coq Require Extraction ExtrOcamlBasic.
From Unodb Require Import Base.Lex Base.Bytes Encode.EncModel Art.ArtModel Art.ArtIter Art.ArtFault Art.ArtAlloc Lock.LockModel Olc.OlcTrace Olc.Protocol Qsbr.QsbrModel Qsbr.QsbrFine Lin.LinCheck Ptr.PtrShape Ptr.PtrModel Gen.GenPtrMethods.
Extraction Language OCaml.
Extraction "model.ml"
  enc_init enc_step enc_run decode_seq ty_of ty_width lex_compare f32 f64 enc_tuple comp_canon
  db0 db_get db_insert db_remove db_clear db_empty db_scan db_scan_from db_scan_range db_scan_from_pinned db_insert_allocs db_remove_allocs
  db_blocks ins_allocs ins_frees rem_allocs rem_frees free_all
  linit lstep lrun lrun_diag node_accepts node_diag no_wait_while_holding olc_trace_ok
  qinit qstep op_enabled wait_of q_register q_unregister q_quiescent q_retire pending registered_count
  lin_ok op_ok scan_ok
  finit fstep frun frun_diag fbad fpending sw_word get_fthr ev_tid
  pinit pstep pop_ok quiescent_allowed ptr_methods.
