// Canonical one-line form of unodb's dump() output (same grammar and same text as the parser in
// harness/seq_diff.cpp, which tools/p_art.py compares with the extracted model's `canon`):
//   leaf   L<key hex>=<value hex>
//   inode  I4|I16|I48|I256 [<prefix hex or ->] { <key byte>:<child> , ... }     (children in key-byte order)
//   empty tree: "empty"
// Addresses, lock words, N48 slot numbers and leaf identities are dropped (history dependent by design).
#ifndef VERIF_CANON_DUMP_HPP
#define VERIF_CANON_DUMP_HPP

#include <cstddef>
#include <cstring>
#include <stdexcept>
#include <string>
#include <vector>

namespace canon {

struct dump_parser {
  const std::string& s;
  std::size_t pos{0};
  explicit dump_parser(const std::string& s_) : s(s_) {}

  void expect_find(const char* tok) {
    auto p = s.find(tok, pos);
    if (p == std::string::npos) throw std::runtime_error(std::string("dump parse: missing ") + tok);
    pos = p + std::strlen(tok);
  }
  bool at(const char* tok) const { return s.compare(pos, std::strlen(tok), tok) == 0; }
  std::string hexbytes(std::size_t n) {
    std::string out;
    for (std::size_t i = 0; i < n; ++i) {
      if (pos + 2 >= s.size() || s[pos] != ' ') throw std::runtime_error("dump parse: byte");
      out += s.substr(pos + 1, 2);
      pos += 3;
    }
    if (out.empty()) out = "-";
    return out;
  }
  std::size_t number() {
    std::size_t v = 0;
    while (pos < s.size() && s[pos] >= '0' && s[pos] <= '9') v = v * 10 + static_cast<std::size_t>(s[pos++] - '0');
    return v;
  }
  std::string node(unsigned depth = 0) {
    if (depth > 64) throw std::runtime_error("dump parse: deeper than any key");
    expect_find("node at: ");
    expect_find("type = ");
    if (at("LEAF")) {
      expect_find("key(");
      auto n = number();
      expect_find("): 0x");
      auto k = hexbytes(n);
      expect_find("val(");
      auto m = number();
      expect_find("): 0x");
      auto v = hexbytes(m);
      return "L" + k + "=" + v;
    }
    std::string cls;
    if (at("I256")) cls = "I256";
    else if (at("I48")) cls = "I48";
    else if (at("I16")) cls = "I16";
    else if (at("I4")) cls = "I4";
    else throw std::runtime_error("dump parse: type");
    expect_find("prefix(");
    // the prefix length is streamed as a raw uint8_t
    auto plen = static_cast<std::size_t>(static_cast<unsigned char>(s[pos]));
    pos += 1;
    if (s[pos] != ')') throw std::runtime_error("dump parse: prefix len");
    pos += 1;
    std::string pre = "-";
    if (plen > 0) {
      expect_find(": 0x");
      pre = hexbytes(plen);
    }
    expect_find("# children = ");
    auto cnt = number();
    if (cnt > 256) throw std::runtime_error("dump parse: children count");
    std::string out = cls + "[" + pre + "]{";
    if (cls == "I4" || cls == "I16") {
      expect_find(cls == "I4" ? "key_bytes:" : "key bytes =");
      std::vector<std::string> kb;
      for (std::size_t i = 0; i < cnt; ++i) kb.push_back(hexbytes(1));
      expect_find("children:  \n");
      for (std::size_t i = 0; i < cnt; ++i) out += kb[i] + ":" + node(depth + 1) + (i + 1 < cnt ? "," : "");
    } else if (cls == "I48") {
      expect_find("key bytes & child indexes\n");
      for (std::size_t i = 0; i < cnt; ++i) {
        while (pos < s.size() && s[pos] == '\n') ++pos;
        if (pos >= s.size() || s[pos] != ' ') throw std::runtime_error("dump parse: i48 entry");
        pos += 1;
        auto kb = hexbytes(1);
        expect_find("child index = ");
        (void)number();  // slot numbers are history dependent by design
        expect_find(": ");
        out += kb + ":" + node(depth + 1) + (i + 1 < cnt ? "," : "");
      }
    } else {
      expect_find("key bytes & children:\n");
      for (std::size_t i = 0; i < cnt; ++i) {
        while (pos < s.size() && s[pos] == '\n') ++pos;
        if (pos >= s.size() || s[pos] != ' ') throw std::runtime_error("dump parse: i256 entry");
        pos += 1;
        auto kb = hexbytes(1);
        out += kb + ":" + node(depth + 1) + (i + 1 < cnt ? "," : "");
      }
    }
    return out + "}";
  }
};

inline std::string canon_dump(const std::string& text) {
  auto nl = text.find('\n');
  dump_parser p(text);
  p.pos = nl == std::string::npos ? 0 : nl + 1;
  if (text.find("type = ", p.pos) == std::string::npos) return "empty";
  return p.node();
}

}  // namespace canon

#endif  // VERIF_CANON_DUMP_HPP
