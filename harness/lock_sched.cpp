// C07: the real optimistic_lock + in_critical_section words driven by 2-3
// threads under the deterministic scheduler; prints every execution's event
// trace (replayed by the extracted Coq acceptor) and checks the property
// directly on the implementation (snapshot consistency of validated reads,
// guard exclusivity, obsolete finality).
//
// usage: lock_sched --prog "<t0>|<t1>|<t2>" [--bound N] [--max N] [--random N] [--seed S] [--replay "c,c,c"]
//   thread program = ';'-separated actions:
//     R<k><c>   read section: load k words (1..3), c=1: an interim check after the first load
//     W<v><o>   read lock + upgrade; on success store v (1..9) into all 3 words; o=1: unlock_and_obsolete
#include "global.hpp"

#include <atomic>
#include <chrono>
#include <cstdint>
#include <thread>
#include <cstdio>
#include <cstring>
#include <memory>
#include <sstream>
#include <string>
#include <vector>

#include "optimistic_lock.hpp"

#include "dsched.hpp"

namespace {

struct action {
  char kind;
  int a;
  int b;
};

struct shared {
  unodb::optimistic_lock lock;
  unodb::in_critical_section<std::uint64_t> w[3];
  int active_guards{0};
  std::vector<std::string> problems;
  bool obsoleted{false};
};

std::vector<std::vector<action>> parse(const std::string& s) {
  std::vector<std::vector<action>> out;
  std::stringstream ts(s);
  std::string t;
  while (std::getline(ts, t, '|')) {
    std::vector<action> prog;
    std::stringstream as(t);
    std::string a;
    while (std::getline(as, a, ';')) {
      if (a.size() < 3) continue;
      prog.push_back(action{a[0], a[1] - '0', a[2] - '0'});
    }
    out.push_back(prog);
  }
  return out;
}

void run_thread(shared& sh, const std::vector<action>& prog, int tid) {
  for (const auto& ac : prog) {
    if (ac.kind == 'R') {
      auto rcs = sh.lock.try_read_lock();
      if (rcs.must_restart()) {
        if (!sh.obsoleted) sh.problems.push_back("try_read_lock failed on a lock that was never made obsolete");
        continue;
      }
      if (sh.obsoleted) sh.problems.push_back("a read section was opened on an obsolete lock");
      std::uint64_t vals[3] = {0, 0, 0};
      bool ok = true;
      for (int i = 0; i < ac.a && i < 3; ++i) {
        vals[i] = sh.w[i].load();
        if (i == 0 && ac.b == 1) ok = rcs.check();
        if (!ok) break;
      }
      if (ok) ok = rcs.try_read_unlock();
      if (ok) {
        for (int i = 1; i < ac.a && i < 3; ++i)
          if (vals[i] != vals[0])
            sh.problems.push_back("validated read section of thread " + std::to_string(tid) + " saw a torn snapshot");
      }
    } else if (ac.kind == 'W') {
      auto rcs = sh.lock.try_read_lock();
      if (rcs.must_restart()) continue;
      {
        unodb::optimistic_lock::write_guard g{std::move(rcs)};
        if (g.must_restart()) continue;
        if (sh.obsoleted) sh.problems.push_back("an upgrade succeeded on an obsolete lock");
        if (++sh.active_guards != 1) sh.problems.push_back("two write guards active at once");
        for (auto& w : sh.w) w = static_cast<std::uint64_t>(ac.a);
        --sh.active_guards;
        if (ac.b == 1) {
          sh.obsoleted = true;
          g.unlock_and_obsolete();
        }
      }
    }
  }
}

const char* kind_name(unsigned k) {
  switch (k) {
    case dsched::vk::lock_load: return "RLOCK";
    case dsched::vk::lock_spin: return "SPIN";
    case dsched::vk::lock_check: return "CHECK";
    case dsched::vk::lock_cas: return "UPGRADE";
    case dsched::vk::lock_unlock: return "WUNLOCK";
    case dsched::vk::lock_obsolete: return "WOBSOLETE";
    case dsched::vk::cs_load: return "LOAD";
    case dsched::vk::cs_store: return "STORE";
    default: return "OTHER";
  }
}

}  // namespace

// --spinprobe N: free-running (no scheduler).  The main thread holds the write
// guard; a reader calls try_read_lock() and must still be inside it after N
// iterations of the wait loop (counted through the lock_spin hook) - a reader
// waits for as long as the writer holds the lock, it never gives up with a
// section on a write-locked word.  After the unlock the reader must return
// with a section that validates.
namespace spinprobe {
std::atomic<unsigned long> spins{0};
void sched_cb(unsigned k, const void*) {
  if (k == unodb::detail::verif::lock_spin) spins.fetch_add(1, std::memory_order_relaxed);
}
int run(unsigned long n) {
  unodb::optimistic_lock lock;
  int problems = 0;
  {
    auto rcs = lock.try_read_lock();
    unodb::optimistic_lock::write_guard g{std::move(rcs)};
    if (g.must_restart()) { std::puts("P spinprobe: cannot take the write guard"); return 1; }
    unodb::detail::verif::sched_hook.store(&sched_cb);
    std::atomic<bool> returned{false}, valid{false}, restart{false};
    std::thread reader([&]() {
      auto r = lock.try_read_lock();
      returned.store(true);
      restart.store(r.must_restart());
      if (!r.must_restart()) valid.store(r.try_read_unlock());
    });
    const auto t0 = std::chrono::steady_clock::now();
    while (spins.load() < n && !returned.load() &&
           std::chrono::steady_clock::now() - t0 < std::chrono::seconds(20))
      std::this_thread::yield();
    const auto seen = spins.load();
    if (returned.load()) {
      std::printf("P spinprobe: try_read_lock returned after %lu wait iterations while the lock was still write-locked\n", seen);
      ++problems;
    }
    g.unlock();
    reader.join();
    unodb::detail::verif::sched_hook.store(nullptr);
    if (!problems && (restart.load() || !valid.load())) {
      std::puts("P spinprobe: the section the reader obtained after the unlock does not validate");
      ++problems;
    }
    std::printf("S spinprobe spins=%lu problems=%d\n", seen, problems);
  }
  return 0;
}
}  // namespace spinprobe

int main(int argc, char** argv) {
  std::string prog_s = "R30|W50";
  unsigned bound = 1;
  unsigned long max_execs = 2000, nrandom = 0;
  std::uint64_t seed = 1;
  std::string replay;
  for (int i = 1; i + 1 < argc; i += 2) {
    const std::string k = argv[i], v = argv[i + 1];
    if (k == "--prog") prog_s = v;
    if (k == "--bound") bound = static_cast<unsigned>(std::stoul(v));
    if (k == "--max") max_execs = std::stoul(v);
    if (k == "--random") nrandom = std::stoul(v);
    if (k == "--seed") seed = std::stoull(v);
    if (k == "--replay") replay = v;
    if (k == "--spinprobe") return spinprobe::run(std::stoul(v));
  }
  const auto progs = parse(prog_s);
  unsigned long execs = 0, problems = 0;

  auto one = [&](const dsched::controller::chooser& ch) {
    auto sh = std::make_unique<shared>();
    dsched::controller ctl(20000);
    std::vector<std::function<void()>> bodies;
    for (std::size_t t = 0; t < progs.size(); ++t)
      bodies.push_back([&, t]() { run_thread(*sh, progs[t], static_cast<int>(t)); });
    auto res = ctl.run(bodies, ch, [](std::function<void()> f) { return std::thread(std::move(f)); });
    ++execs;
    std::string line = "X";
    for (auto& d : res.decisions) line += " " + std::to_string(d.chosen);
    std::puts(line.c_str());
    for (auto& e : res.log) {
      int idx = -1;
      for (int i = 0; i < 3; ++i)
        if (e.addr == static_cast<const void*>(&sh->w[i])) idx = i;
      if (e.kind == dsched::vk::cs_load || e.kind == dsched::vk::cs_store)
        std::printf("E %d %s %d %llu\n", e.tid, kind_name(e.kind), idx, static_cast<unsigned long long>(e.a));
      else if (e.addr == static_cast<const void*>(&sh->lock))
        std::printf("E %d %s %llu %llu\n", e.tid, kind_name(e.kind), static_cast<unsigned long long>(e.a),
                    static_cast<unsigned long long>(e.b));
    }
    if (res.deadlock) sh->problems.push_back("deadlock: every unfinished thread spins");
    if (res.budget_exceeded) sh->problems.push_back("step budget exceeded");
    for (auto& p : sh->problems) {
      std::printf("P %s\n", p.c_str());
      ++problems;
    }
    std::puts("Y");
    return res.decisions;
  };

  if (!replay.empty()) {
    dsched::prefix_chooser pc;
    std::stringstream ss(replay);
    std::string c;
    while (std::getline(ss, c, ',')) pc.prefix.push_back(std::stoi(c));
    one(pc);
  } else {
    dsched::explore_bounded(bound, max_execs, [&](const std::vector<int>& pre) {
      dsched::prefix_chooser pc{pre};
      return one(pc);
    });
    for (unsigned long i = 0; i < nrandom; ++i) {
      dsched::random_chooser rc{dsched::rng64(seed * 1000003ULL + i), 300};
      one(std::ref(rc));
    }
  }
  std::printf("S execs=%lu problems=%lu\n", execs, problems);
  return 0;
}
