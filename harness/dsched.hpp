// dsched: deterministic cooperative scheduler over the UNODB_DETAIL_VERIF_HOOKS
// scheduling points.  Exactly one controlled thread runs at a time, so an
// execution is a function of the schedule (the list of thread choices).
// Header-only; include after the unodb headers (needs verif_hooks.hpp).
#ifndef VERIF_DSCHED_HPP
#define VERIF_DSCHED_HPP

#ifndef UNODB_DETAIL_VERIF_HOOKS
#error "dsched needs -DUNODB_DETAIL_VERIF_HOOKS"
#endif

#include <condition_variable>
#include <cstdint>
#include <cstdio>
#include <functional>
#include <map>
#include <mutex>
#include <string>
#include <thread>
#include <vector>

#include "verif_hooks.hpp"

namespace dsched {

namespace vk = unodb::detail::verif;

struct event {
  int tid;
  unsigned kind;
  const void* addr;
  std::uint64_t a, b, c;
  unsigned long step;
};

enum class tstate { not_started, at_point, running, done };

struct decision {
  std::vector<int> enabled;  // runnable thread ids at this step
  int chosen;
  int current;       // thread that ran the previous step (-1 at start)
  bool current_enabled_nonspin;  // switching away from it counts as a preemption
};

struct result {
  std::vector<event> log;
  std::vector<decision> decisions;
  bool deadlock{false};
  bool budget_exceeded{false};
  unsigned long steps{0};
};

class controller;
inline controller* g_ctl = nullptr;
inline thread_local int my_tid = -1;

class controller {
 public:
  // policy: given the decision point (enabled set etc.) and the step index, return the thread to run
  using chooser = std::function<int(const decision&, unsigned long step)>;

  explicit controller(unsigned long max_steps_ = 200000) : max_steps(max_steps_) {}

  // external observations (e.g. operation call/return) can be logged by workers
  void note(unsigned kind, std::uint64_t a = 0, std::uint64_t b = 0, std::uint64_t c = 0) {
    std::lock_guard<std::mutex> l(mu);
    res.log.push_back(event{my_tid, kind, nullptr, a, b, c, res.steps});
  }

  result run(std::vector<std::function<void()>> bodies, const chooser& choose,
             const std::function<std::thread(std::function<void()>)>& spawn,
             const std::function<void()>& after_hooks_installed = {},
             const std::function<void()>& controlled_part_over = {}) {
    const int n = static_cast<int>(bodies.size());
    st.assign(static_cast<std::size_t>(n), tstate::not_started);
    spinning.assign(static_cast<std::size_t>(n), false);
    spin_addr.assign(static_cast<std::size_t>(n), nullptr);
    pt_kind.assign(static_cast<std::size_t>(n), 0U);
    wait_pred.assign(static_cast<std::size_t>(n), nullptr);
    granted.assign(static_cast<std::size_t>(n), false);
    cvs = std::vector<std::condition_variable>(static_cast<std::size_t>(n));
    res = result{};
    g_ctl = this;
    vk::sched_hook.store(&controller::sched_cb);
    vk::obs_hook.store(&controller::obs_cb);
    if (after_hooks_installed) after_hooks_installed();
    std::vector<std::thread> threads;
    for (int i = 0; i < n; ++i) {
      auto body = bodies[static_cast<std::size_t>(i)];
      threads.push_back(spawn([this, i, body]() {
        my_tid = i;
        {
          std::unique_lock<std::mutex> l(mu);
          st[static_cast<std::size_t>(i)] = tstate::at_point;
          ctl_cv.notify_all();
          cvs[static_cast<std::size_t>(i)].wait(l, [&] { return granted[static_cast<std::size_t>(i)]; });
          granted[static_cast<std::size_t>(i)] = false;
          st[static_cast<std::size_t>(i)] = tstate::running;
        }
        body();
        {
          std::unique_lock<std::mutex> l(mu);
          st[static_cast<std::size_t>(i)] = tstate::done;
          my_tid = -1;
          ctl_cv.notify_all();
        }
      }));
    }
    int current = -1;
    {
      std::unique_lock<std::mutex> l(mu);
      while (true) {
        ctl_cv.wait(l, [&] {
          for (auto s : st)
            if (s == tstate::running || s == tstate::not_started) return false;
          return true;
        });
        decision d;
        d.current = current;
        bool any_unfinished = false;
        for (int i = 0; i < n; ++i) {
          if (st[static_cast<std::size_t>(i)] == tstate::at_point) {
            any_unfinished = true;
            d.enabled.push_back(i);
          }
        }
        if (!any_unfinished) break;
        // threads parked at a spin point stay disabled until some other thread has run
        std::vector<int> nonspin;
        for (int i : d.enabled) {
          const auto ui = static_cast<std::size_t>(i);
          if (spinning[ui]) continue;
          if (wait_pred[ui] && !wait_pred[ui]()) continue;  // blocked on a harness-level condition
          nonspin.push_back(i);
        }
        if (nonspin.empty()) {
          // every unfinished thread is waiting in a spin loop and nobody else can change anything
          res.deadlock = true;
          release_all(l, n);
          break;
        }
        d.enabled = nonspin;
        d.current_enabled_nonspin = false;
        for (int i : nonspin)
          if (i == current) d.current_enabled_nonspin = true;
        if (res.steps >= max_steps) {
          res.budget_exceeded = true;
          release_all(l, n);
          break;
        }
        int c = choose(d, res.steps);
        bool ok = false;
        for (int i : d.enabled) ok = ok || i == c;
        if (!ok) c = d.enabled[0];
        d.chosen = c;
        res.decisions.push_back(d);
        ++res.steps;
        // a step that writes shared state re-enables the spinners (they will re-read the word);
        // reads by other threads cannot change what a spinner waits for
        if (is_write_kind(pt_kind[static_cast<std::size_t>(c)]))
          for (int i = 0; i < n; ++i)
            if (i != c) spinning[static_cast<std::size_t>(i)] = false;
        current = c;
        st[static_cast<std::size_t>(c)] = tstate::running;
        granted[static_cast<std::size_t>(c)] = true;
        cvs[static_cast<std::size_t>(c)].notify_all();
      }
    }
    if (controlled_part_over) controlled_part_over();
    for (auto& t : threads) t.join();
    vk::sched_hook.store(nullptr);
    vk::obs_hook.store(nullptr);
    g_ctl = nullptr;
    return std::move(res);
  }

 private:
  void release_all(std::unique_lock<std::mutex>& l, int n) {
    // let everything run freely to completion (used after deadlock / budget detection);
    // free_run makes the hooks pass through
    free_run = true;
    for (int i = 0; i < n; ++i) {
      granted[static_cast<std::size_t>(i)] = true;
      cvs[static_cast<std::size_t>(i)].notify_all();
    }
    (void)l;
  }

  static void sched_cb(unsigned kind, const void* addr) {
    controller* c = g_ctl;
    if (c == nullptr || my_tid < 0) return;
    c->yield(kind, addr);
  }

  static void obs_cb(unsigned kind, const void* addr, std::uint64_t a, std::uint64_t b, std::uint64_t cc) {
    controller* c = g_ctl;
    if (c == nullptr) return;
    std::lock_guard<std::mutex> l(c->mu);
    if (my_tid < 0 && !c->log_uncontrolled) return;
    c->res.log.push_back(event{my_tid, kind, addr, a, b, cc, c->res.steps});
  }

  void yield(unsigned kind, const void* addr) {
    const auto i = static_cast<std::size_t>(my_tid);
    std::unique_lock<std::mutex> l(mu);
    if (free_run) return;
    if (kind == vk::lock_spin || kind == vk::qsbr_spin) {
      spinning[i] = true;
      spin_addr[i] = addr;
    }
    pt_kind[i] = kind;
    st[i] = tstate::at_point;
    ctl_cv.notify_all();
    cvs[i].wait(l, [&] { return granted[i]; });
    granted[i] = false;
    st[i] = tstate::running;
  }

  // Park the calling controlled thread until pred() holds (evaluated by the controller between steps).
  // pred must only read state that changes while exactly one controlled thread runs.
 public:
  void block_until(std::function<bool()> pred) {
    if (my_tid < 0) return;
    const auto i = static_cast<std::size_t>(my_tid);
    std::unique_lock<std::mutex> l(mu);
    if (free_run) return;
    wait_pred[i] = std::move(pred);
    pt_kind[i] = 0;
    st[i] = tstate::at_point;
    ctl_cv.notify_all();
    cvs[i].wait(l, [&] { return granted[i]; });
    granted[i] = false;
    wait_pred[i] = nullptr;
    st[i] = tstate::running;
  }

 private:
  static bool is_write_kind(unsigned k) {
    switch (k) {
      case vk::lock_cas: case vk::lock_unlock: case vk::lock_obsolete: case vk::cs_store:
      case vk::qsbr_fetch_sub: case vk::qsbr_cas: case vk::orphan_cas: case vk::orphan_xchg:
      case vk::orphan_cas_move: case vk::orphan_append:
        return true;
      default:
        return false;
    }
  }

 public:
  bool log_uncontrolled{false};
  // true once deadlock / budget detection has released every thread ("exactly one thread runs" no longer holds);
  // not to be called from inside a hook callback of this controller (takes the controller's mutex)
  bool free_running() {
    std::lock_guard<std::mutex> l(mu);
    return free_run;
  }

 private:
  std::mutex mu;
  std::condition_variable ctl_cv;
  std::vector<std::condition_variable> cvs;
  std::vector<tstate> st;
  std::vector<bool> spinning;
  std::vector<const void*> spin_addr;
  std::vector<unsigned> pt_kind;
  std::vector<std::function<bool()>> wait_pred;
  std::vector<bool> granted;
  result res;
  unsigned long max_steps;
  bool free_run{false};
};

// ---- schedule exploration ----------------------------------------------------

// non-preemptive default: keep running the current thread while it is enabled, else lowest id
inline int default_choice(const decision& d) {
  if (d.current_enabled_nonspin) return d.current;
  return d.enabled[0];
}

// A schedule prefix: explicit choices for the first steps, default policy afterwards.
struct prefix_chooser {
  std::vector<int> prefix;
  int operator()(const decision& d, unsigned long step) const {
    if (step < prefix.size()) return prefix[step];
    return default_choice(d);
  }
};

inline unsigned preemptions(const std::vector<decision>& ds, std::size_t upto) {
  unsigned p = 0;
  for (std::size_t i = 0; i < upto && i < ds.size(); ++i)
    if (ds[i].current_enabled_nonspin && ds[i].chosen != ds[i].current) ++p;
  return p;
}

// Enumerate all schedules with at most `bound` preemptions by stateless DFS.
// exec(prefix) runs one execution and returns its decisions; visit() is called per execution.
template <class Exec>
unsigned long explore_bounded(unsigned bound, unsigned long max_execs, Exec exec) {
  std::vector<std::vector<int>> stack;
  stack.push_back({});
  unsigned long count = 0;
  while (!stack.empty() && count < max_execs) {
    auto pre = stack.back();
    stack.pop_back();
    const std::vector<decision> ds = exec(pre);
    ++count;
    // children: deviate at a step >= |pre|
    for (std::size_t i = ds.size(); i-- > pre.size();) {
      const auto& d = ds[i];
      for (int a : d.enabled) {
        if (a == d.chosen) continue;
        unsigned p = preemptions(ds, i);
        if (d.current_enabled_nonspin && a != d.current) ++p;
        if (p > bound) continue;
        std::vector<int> child;
        child.reserve(i + 1);
        for (std::size_t j = 0; j < i; ++j) child.push_back(ds[j].chosen);
        child.push_back(a);
        stack.push_back(std::move(child));
      }
    }
  }
  return count;
}

// PCT-style random scheduling: random priorities, d-1 priority change points
struct rng64 {
  std::uint64_t s;
  explicit rng64(std::uint64_t seed) : s(seed * 0x9E3779B97F4A7C15ULL + 0x1234567ULL) {}
  std::uint64_t next() {
    s += 0x9E3779B97F4A7C15ULL;
    std::uint64_t z = s;
    z = (z ^ (z >> 30)) * 0xBF58476D1CE4E5B9ULL;
    z = (z ^ (z >> 27)) * 0x94D049BB133111EBULL;
    return z ^ (z >> 31);
  }
  std::uint64_t below(std::uint64_t n) { return next() % n; }
};

struct random_chooser {
  rng64 rng;
  unsigned switch_per_1000;
  int operator()(const decision& d, unsigned long) {
    if (d.current_enabled_nonspin && rng.below(1000) >= switch_per_1000) return d.current;
    return d.enabled[rng.below(d.enabled.size())];
  }
};

inline std::string addr_names(const std::vector<event>& log, std::map<const void*, int>& ids) {
  (void)log;
  (void)ids;
  return "";
}

}  // namespace dsched

#endif  // VERIF_DSCHED_HPP
