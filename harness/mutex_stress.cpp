// C13: free-running threads on unodb::mutex_db; records complete call/return
// histories (stamped with a global sequence counter) for the verified
// linearizability validator, and inspects every returned lock handle.
// usage: mutex_stress <threads> <ops per thread> <keys> <runs> <seed>
#include "global.hpp"

#include <atomic>
#include <cstdint>
#include <cstdio>
#include <cstring>
#include <random>
#include <string>
#include <thread>
#include <vector>

#include "mutex_art.hpp"

namespace {

struct rec {
  int tid;
  char op;  // G I R
  std::uint64_t key;
  std::uint64_t val;   // value inserted
  bool ok;             // insert/remove result, get hit
  std::uint64_t got;   // value read by a get hit
  std::uint64_t inv, ret;
};

std::atomic<std::uint64_t> clock_{0};
std::atomic<int> handle_problems{0};

}  // namespace

int main(int argc, char** argv) {
  const int nthreads = argc > 1 ? std::atoi(argv[1]) : 3;
  const int nops = argc > 2 ? std::atoi(argv[2]) : 10;
  const int nkeys = argc > 3 ? std::atoi(argv[3]) : 3;
  const int runs = argc > 4 ? std::atoi(argv[4]) : 100;
  const std::uint64_t seed = argc > 5 ? std::strtoull(argv[5], nullptr, 10) : 1;
  for (int run = 0; run < runs; ++run) {
    unodb::mutex_db<std::uint64_t, unodb::value_view> db;
    clock_.store(0);
    std::vector<std::vector<rec>> logs(static_cast<std::size_t>(nthreads));
    std::atomic<int> ready{0};
    std::vector<std::thread> ts;
    for (int t = 0; t < nthreads; ++t) {
      ts.emplace_back([&, t]() {
        std::mt19937_64 rng(seed * 1000003ULL + static_cast<std::uint64_t>(run) * 131ULL + static_cast<std::uint64_t>(t));
        auto& log = logs[static_cast<std::size_t>(t)];
        ready.fetch_add(1);
        while (ready.load() < nthreads) {
        }
        for (int i = 0; i < nops; ++i) {
          rec r{};
          r.tid = t;
          r.key = rng() % static_cast<std::uint64_t>(nkeys);
          const auto c = rng() % 10;
          // timing perturbation
          if (rng() % 4 == 0) std::this_thread::yield();
          if (c < 4) {
            r.op = 'G';
            r.inv = clock_.fetch_add(1);
            auto res = db.get(r.key);
            r.ok = res.first.has_value();
            if (r.ok) {
              // a hit must come back owning the lock; the bytes must stay put while it is held
              if (!res.second.owns_lock()) handle_problems.fetch_add(1);
              std::uint64_t v1 = 0, v2 = 0;
              std::memcpy(&v1, res.first->data(), sizeof v1);
              std::this_thread::yield();
              std::memcpy(&v2, res.first->data(), sizeof v2);
              if (v1 != v2) handle_problems.fetch_add(1);
              r.got = v1;
              // the linearization point of a hit lies before the handle is released: stamp the return first
              r.ret = clock_.fetch_add(1);
              res.second.unlock();
            } else {
              if (res.second.owns_lock()) handle_problems.fetch_add(1);
              r.ret = clock_.fetch_add(1);
            }
          } else if (c < 8) {
            r.op = 'I';
            r.val = (static_cast<std::uint64_t>(t) << 32) | static_cast<std::uint64_t>(i + 1);
            r.inv = clock_.fetch_add(1);
            r.ok = db.insert(r.key, unodb::value_view{reinterpret_cast<const std::byte*>(&r.val), sizeof r.val});
            r.ret = clock_.fetch_add(1);
          } else {
            r.op = 'R';
            r.inv = clock_.fetch_add(1);
            r.ok = db.remove(r.key);
            r.ret = clock_.fetch_add(1);
          }
          log.push_back(r);
        }
      });
    }
    for (auto& t : ts) t.join();
    std::puts("H");
    for (auto& log : logs)
      for (auto& r : log)
        std::printf("C %d %c %llu %llu %d %llu %llu %llu\n", r.tid, r.op, static_cast<unsigned long long>(r.key),
                    static_cast<unsigned long long>(r.val), r.ok ? 1 : 0, static_cast<unsigned long long>(r.got),
                    static_cast<unsigned long long>(r.inv), static_cast<unsigned long long>(r.ret));
    std::puts("Z");
  }
  std::printf("S handle_problems=%d\n", handle_problems.load());
  return 0;
}
