// C05/C06 coarse correspondence: several qsbr_per_thread instances driven
// from ONE OS thread at call granularity (every call atomic), compared with
// the extracted coarse model after every call.
// stdin: one op per line:  G i (register/resume)  U i (pause)  Q i (quiescent)  R i (retire a fresh block)
// stdout per op: E=<epoch> T=<threads> P=<in previous> OP=<a b|c> OC=<..> t<i>=<reg>,<lsq>,<ls>,<qs>,<prev ids>,<cur ids> ... F=<freed ids>
#include <atomic>
#include <cstdint>
#include <cstdio>
#include <cstring>
#include <functional>
#include <iostream>
#include <map>
#include <memory>
#include <optional>
#include <sstream>
#include <string>
#include <unordered_set>
#include <vector>
#include <mutex>
#include <thread>
#include <array>
#include <exception>
#include <system_error>
#include <type_traits>
#include <utility>
#include <ostream>

#ifdef UNODB_DETAIL_WITH_STATS
#include <boost/accumulators/accumulators.hpp>
#include <boost/accumulators/framework/extractor.hpp>
#include <boost/accumulators/statistics/max.hpp>
#include <boost/accumulators/statistics/mean.hpp>
#include <boost/accumulators/statistics/stats.hpp>
#include <boost/accumulators/statistics/variance.hpp>
#endif

#include "global.hpp"
#include "heap.hpp"

#define private public
#define protected public
#include "qsbr.hpp"
#undef private
#undef protected

namespace {

std::map<const void*, long> live_ids;  // retired blocks not yet freed
std::vector<long> freed_now;

void obs(unsigned kind, const void* addr, std::uint64_t, std::uint64_t, std::uint64_t) {
  if (kind != unodb::detail::verif::mem_free) return;
  auto it = live_ids.find(addr);
  if (it == live_ids.end()) return;
  freed_now.push_back(it->second);
  live_ids.erase(it);
}

std::string ids_of(const unodb::detail::dealloc_request_vector& v, const std::map<const void*, long>& all) {
  std::string s;
  for (const auto& r : v) {
    auto it = all.find(r.pointer);
    s += (s.empty() ? "" : " ") + std::to_string(it == all.end() ? -1 : it->second);
  }
  return s;
}

std::string orphan_list(const std::atomic<unodb::detail::dealloc_vector_list_node*>& head,
                        const std::map<const void*, long>& all) {
  std::string s;
  for (auto* n = head.load(); n != nullptr; n = n->next) {
    if (!s.empty()) s += "|";
    s += ids_of(n->requests, all);
  }
  return s;
}

}  // namespace

int main(int argc, char** argv) {
  const int n = argc > 1 ? std::atoi(argv[1]) : 4;
  std::vector<std::unique_ptr<unodb::qsbr_per_thread>> objs(static_cast<std::size_t>(n));
  auto get = [&](int i) -> unodb::qsbr_per_thread* {
    return i == 0 ? &unodb::this_thread() : objs[static_cast<std::size_t>(i)].get();
  };
  // bring the library to the model's initial state: nobody registered, epoch 0
  unodb::this_thread().qsbr_pause();
  for (int k = 0; k < 3; ++k) {
    unodb::this_thread().qsbr_resume();
    unodb::this_thread().qsbr_pause();
  }
  unodb::detail::verif::obs_hook.store(&obs);
  std::map<const void*, long> all_ids;  // every block ever retired (for printing list contents)
  long next_id = 0;
  std::string line;
  while (std::getline(std::cin, line)) {
    std::istringstream is(line);
    std::string op;
    int i = 0;
    is >> op >> i;
    freed_now.clear();
    std::string err;
    if (op == "Z") {
      // reset: nobody registered, nothing pending, epoch 0 (the model's initial state)
      for (int k = 0; k < n; ++k) {
        auto* o = k == 0 ? &unodb::this_thread() : objs[static_cast<std::size_t>(k)].get();
        if (o != nullptr && !o->is_qsbr_paused()) o->qsbr_pause();
      }
      while (unodb::qsbr_state::get_epoch(unodb::qsbr::instance().get_state()).get_val() != 0) {
        unodb::this_thread().qsbr_resume();
        unodb::this_thread().qsbr_pause();
      }
      std::puts("Z");
      continue;
    }
    if (op == "G") {
      if (i != 0 && !objs[static_cast<std::size_t>(i)]) objs[static_cast<std::size_t>(i)] = std::make_unique<unodb::qsbr_per_thread>();
      else get(i)->qsbr_resume();
    } else if (op == "U") {
      get(i)->qsbr_pause();
    } else if (op == "Q") {
      get(i)->quiescent();
    } else if (op == "R") {
      void* p = unodb::detail::allocate_aligned(16);
      // a reused address gets a fresh id
      all_ids[p] = next_id;
      live_ids[p] = next_id;
      ++next_id;
      get(i)->on_next_epoch_deallocate(p
#ifdef UNODB_DETAIL_WITH_STATS
                                       , 16
#endif
#ifndef NDEBUG
                                       , nullptr
#endif
      );
    }
    const auto st = unodb::qsbr::instance().get_state();
    std::string out = "E=" + std::to_string(unodb::qsbr_state::get_epoch(st).get_val()) +
                      " T=" + std::to_string(unodb::qsbr_state::get_thread_count(st)) +
                      " P=" + std::to_string(unodb::qsbr_state::get_threads_in_previous_epoch(st));
    out += " OP=" + orphan_list(unodb::qsbr::instance().orphaned_previous_interval_dealloc_requests, all_ids);
    out += " OC=" + orphan_list(unodb::qsbr::instance().orphaned_current_interval_dealloc_requests, all_ids);
    for (int k = 0; k < n; ++k) {
      auto* o = k == 0 ? &unodb::this_thread() : objs[static_cast<std::size_t>(k)].get();
      if (o == nullptr) {
        out += " t" + std::to_string(k) + "=0";
        continue;
      }
      out += " t" + std::to_string(k) + "=" + (o->is_qsbr_paused() ? "0" : "1");
      if (!o->is_qsbr_paused())
        out += "," + std::to_string(o->last_seen_quiescent_state_epoch.get_val()) + "," +
               std::to_string(o->last_seen_epoch.get_val()) + "," + std::to_string(o->quiescent_states_since_epoch_change) +
               ",[" + ids_of(o->previous_interval_dealloc_requests, all_ids) + "],[" +
               ids_of(o->current_interval_dealloc_requests, all_ids) + "]";
    }
    out += " F=";
    for (std::size_t k = 0; k < freed_now.size(); ++k) out += (k ? " " : "") + std::to_string(freed_now[k]);
    std::puts(out.c_str());
  }
  // leave everything unregistered and drained so that the library's exit-time checks pass
  unodb::detail::verif::obs_hook.store(nullptr);
  for (int k = 1; k < n; ++k)
    if (objs[static_cast<std::size_t>(k)] && !objs[static_cast<std::size_t>(k)]->is_qsbr_paused())
      objs[static_cast<std::size_t>(k)]->qsbr_pause();
  if (unodb::this_thread().is_qsbr_paused()) unodb::this_thread().qsbr_resume();
  unodb::this_thread().quiescent();
  unodb::this_thread().quiescent();
  return 0;
}
