// Implementation side of the sequential ART correspondence (C01, C02, C10, C16).
// Usage: seq_diff <db|mutex|olc> <u64|bytes>   (ops on stdin, one per line)
//   N                 fresh index
//   I <key> <val>     insert        -> 0|1|length_error
//   R <key>           remove        -> 0|1
//   G <key>           get           -> - | <leaf id>:<val>   (leaf id = ordinal of the insert that created the leaf)
//   E                 empty         -> 0|1
//   C                 clear
//   S <f|r> <h|->     scan, visitor returns true at its h-th call (0-based)
//   F <key> <f|r> <h|->   scan_from
//   Q <a> <b> <h|->   scan_range
//   QA <a> <n> <h|->  scan_range(a, first n bytes of the SAME buffer)   (byte keys: bounds that alias one caller buffer)
//   QB <a> <n> <h|->  scan_range(first n bytes of the same buffer, a)
//   D                 canonical dump + statistics + held-view check (+ with the verification hooks: bytes held from
//                     the allocator must equal the reported memory use -> HEAPBAD; N reports LEAK after destruction;
//                     " A=<size>x<count>,..." the multiset of the block sizes currently held from the allocator and
//                     " T=+<sizes obtained>/-<sizes returned>" since the previous D (or N), each as such a multiset:
//                     compared with the model's blocks of the tree / op_allocs, op_frees of Art/ArtAlloc.v)
// Keys and values are hex byte strings ("-" = empty); for u64 indexes the key
// is the 8-byte big-endian (binary comparable) form of the integer.
#include "global.hpp"

#include <cstdint>
#include <cstdio>
#include <cstring>
#include <iostream>
#include <map>
#include <memory>
#include <optional>
#include <sstream>
#include <stdexcept>
#include <string>
#include <vector>

#include "art.hpp"
#include "mutex_art.hpp"
#include "olc_art.hpp"
#include "qsbr.hpp"

namespace {

using bytes = std::vector<std::byte>;

int hexval(char c) {
  if (c >= '0' && c <= '9') return c - '0';
  if (c >= 'a' && c <= 'f') return c - 'a' + 10;
  std::abort();
}
bytes unhex(const std::string& s) {
  bytes out;
  if (s == "-") return out;
  for (std::size_t i = 0; i + 1 < s.size(); i += 2)
    out.push_back(static_cast<std::byte>(hexval(s[i]) * 16 + hexval(s[i + 1])));
  return out;
}
std::string hex(const std::byte* p, std::size_t n) {
  static const char* hx = "0123456789abcdef";
  std::string out;
  for (std::size_t i = 0; i < n; ++i) {
    out.push_back(hx[static_cast<unsigned>(p[i]) >> 4]);
    out.push_back(hx[static_cast<unsigned>(p[i]) & 15]);
  }
  if (out.empty()) out = "-";
  return out;
}

template <typename Key>
Key to_key(const bytes& b) {
  if constexpr (std::is_same_v<Key, unodb::key_view>) {
    return unodb::key_view{b.data(), b.size()};
  } else {
    std::uint64_t v = 0;
    for (std::size_t i = 0; i < 8; ++i) v = (v << 8) | static_cast<std::uint64_t>(i < b.size() ? b[i] : std::byte{0});
    return v;
  }
}

// ---- canonical form of dump() -------------------------------------------------
struct dump_parser {
  const std::string& s;
  std::size_t pos{0};
  explicit dump_parser(const std::string& s_) : s(s_) {}

  void expect_find(const char* tok) {
    auto p = s.find(tok, pos);
    if (p == std::string::npos) throw std::runtime_error(std::string("dump parse: missing ") + tok);
    pos = p + std::strlen(tok);
  }
  bool at(const char* tok) const { return s.compare(pos, std::strlen(tok), tok) == 0; }
  std::string hexbytes(std::size_t n) {
    std::string out;
    for (std::size_t i = 0; i < n; ++i) {
      if (s[pos] != ' ') throw std::runtime_error("dump parse: byte");
      out += s.substr(pos + 1, 2);
      pos += 3;
    }
    if (out.empty()) out = "-";
    return out;
  }
  std::size_t number() {
    std::size_t v = 0;
    while (pos < s.size() && s[pos] >= '0' && s[pos] <= '9') v = v * 10 + static_cast<std::size_t>(s[pos++] - '0');
    return v;
  }
  std::string node() {
    expect_find("node at: ");
    expect_find("type = ");
    if (at("LEAF")) {
      expect_find("key(");
      auto n = number();
      expect_find("): 0x");
      auto k = hexbytes(n);
      expect_find("val(");
      auto m = number();
      expect_find("): 0x");
      auto v = hexbytes(m);
      return "L" + k + "=" + v;
    }
    std::string cls;
    if (at("I256")) cls = "I256";
    else if (at("I48")) cls = "I48";
    else if (at("I16")) cls = "I16";
    else if (at("I4")) cls = "I4";
    else throw std::runtime_error("dump parse: type");
    expect_find("prefix(");
    auto plen = static_cast<std::size_t>(static_cast<unsigned char>(s[pos]));
    pos += 1;
    if (s[pos] != ')') throw std::runtime_error("dump parse: prefix len");
    pos += 1;
    std::string pre = "-";
    if (plen > 0) {
      expect_find(": 0x");
      pre = hexbytes(plen);
    }
    expect_find("# children = ");
    auto cnt = number();
    std::string out = cls + "[" + pre + "]{";
    if (cls == "I4" || cls == "I16") {
      expect_find(cls == "I4" ? "key_bytes:" : "key bytes =");
      std::vector<std::string> kb;
      for (std::size_t i = 0; i < cnt; ++i) kb.push_back(hexbytes(1));
      expect_find("children:  \n");
      for (std::size_t i = 0; i < cnt; ++i) out += kb[i] + ":" + node() + (i + 1 < cnt ? "," : "");
    } else if (cls == "I48") {
      expect_find("key bytes & child indexes\n");
      for (std::size_t i = 0; i < cnt; ++i) {
        while (pos < s.size() && s[pos] == '\n') ++pos;
        if (s[pos] != ' ') throw std::runtime_error("dump parse: i48 entry");
        pos += 1;
        auto kb = hexbytes(1);
        expect_find("child index = ");
        (void)number();  // slot numbers are history dependent by design
        expect_find(": ");
        out += kb + ":" + node() + (i + 1 < cnt ? "," : "");
      }
    } else {
      expect_find("key bytes & children:\n");
      for (std::size_t i = 0; i < cnt; ++i) {
        while (pos < s.size() && s[pos] == '\n') ++pos;
        if (s[pos] != ' ') throw std::runtime_error("dump parse: i256 entry");
        pos += 1;
        auto kb = hexbytes(1);
        out += kb + ":" + node() + (i + 1 < cnt ? "," : "");
      }
    }
    return out + "}";
  }
};

std::string canon_dump(const std::string& text) {
  auto nl = text.find('\n');
  dump_parser p(text);
  p.pos = nl == std::string::npos ? 0 : nl + 1;
  if (text.find("type = ", p.pos) == std::string::npos) return "empty";
  return p.node();
}

template <class View>
std::pair<const std::byte*, std::size_t> raw(const View& v) {
  if constexpr (requires { v.data(); }) {
    return {v.data(), v.size()};
  } else {
    return {v.begin().get(), v.size()};
  }
}

// ---- per-class adapters -------------------------------------------------------
template <class Db>
struct is_mutex : std::false_type {};
template <class K, class V>
struct is_mutex<unodb::mutex_db<K, V>> : std::true_type {};
template <class Db>
struct is_olc : std::false_type {};
template <class K, class V>
struct is_olc<unodb::olc_db<K, V>> : std::true_type {};

template <class Db, class Key>
std::optional<unodb::value_view> do_get(Db& db, Key k, bool& lock_ok) {
  lock_ok = true;
  if constexpr (is_mutex<Db>::value) {
    auto r = db.get(k);
    // C13: a hit must come back holding the lock, a miss must not
    lock_ok = r.first.has_value() ? r.second.owns_lock() : !r.second.owns_lock();
    if (r.first) return *r.first;
    return std::nullopt;
  } else {
    auto r = db.get(k);
    if (r) {
      auto [p, n] = raw(*r);
      return unodb::value_view{p, n};
    }
    return std::nullopt;
  }
}

template <class Db>
void quiesce() {
  if constexpr (is_olc<Db>::value) unodb::this_thread().quiescent();
}

#ifdef UNODB_DETAIL_VERIF_HOOKS
// blocks currently held from the allocator (C10: equals the reported memory use; all returned at destruction)
std::map<const void*, std::uint64_t>& live_blocks() {
  static std::map<const void*, std::uint64_t> m;
  return m;
}
bool tracking = false;
// sizes obtained from / returned to the allocator since the last D (or N)
std::map<std::uint64_t, std::uint64_t> got_sizes, returned_sizes;
void mem_obs(unsigned kind, const void* addr, std::uint64_t a, std::uint64_t, std::uint64_t) {
  if (!tracking) return;
  if (kind == unodb::detail::verif::mem_alloc) {
    live_blocks()[addr] = a;
    ++got_sizes[a];
  }
  if (kind == unodb::detail::verif::mem_free) {
    auto it = live_blocks().find(addr);
    if (it != live_blocks().end()) {
      ++returned_sizes[it->second];
      live_blocks().erase(it);
    } else {
      ++returned_sizes[0];  // a block that is not held: shows up as size 0 in T
    }
  }
}
std::string multiset_str(const std::map<std::uint64_t, std::uint64_t>& m) {
  std::string out;
  for (auto& kv : m) {
    if (!out.empty()) out += ",";
    out += std::to_string(kv.first) + "x" + std::to_string(kv.second);
  }
  return out.empty() ? "-" : out;
}
std::string live_sizes_str() {
  std::map<std::uint64_t, std::uint64_t> m;
  for (auto& kv : live_blocks()) ++m[kv.second];
  return multiset_str(m);
}
std::uint64_t live_bytes() {
  std::uint64_t n = 0;
  for (auto& kv : live_blocks()) n += kv.second;
  return n;
}
#endif

struct held_view {
  const std::byte* ptr;
  std::size_t len;
  bytes val;
  std::uint64_t id;
};

template <class Db, class Key>
int run() {
  auto db = std::make_unique<Db>();
  std::map<bytes, held_view> held;  // key -> view obtained right after the insert
  std::uint64_t next_id = 0;
  std::string line;
  while (std::getline(std::cin, line)) {
    std::istringstream is(line);
    std::string op;
    is >> op;
    std::string out;
    if (op == "N") {
      db.reset();
      quiesce<Db>();
      quiesce<Db>();
      out = "N";
#ifdef UNODB_DETAIL_VERIF_HOOKS
      if (tracking && !live_blocks().empty())
        out += " LEAK=" + std::to_string(live_bytes()) + "/" + std::to_string(live_blocks().size());
      live_blocks().clear();
      got_sizes.clear();
      returned_sizes.clear();
      tracking = true;
#endif
      db = std::make_unique<Db>();
      held.clear();
      next_id = 0;
    } else if (op == "I") {
      std::string ks, vs;
      is >> ks >> vs;
      auto kb = unhex(ks);
      auto vb = unhex(vs);
      bool r = false;
      try {
        r = db->insert(to_key<Key>(kb), unodb::value_view{vb.data(), vb.size()});
        out = r ? "1" : "0";
      } catch (const std::length_error&) {
        out = "length_error";
      }
      if (r) {
        bool lk;
        auto g = do_get<Db, Key>(*db, to_key<Key>(kb), lk);
        if (!g) out += " LOST";
        else held[kb] = held_view{g->data(), g->size(), vb, next_id};
        ++next_id;
      }
    } else if (op == "R") {
      std::string ks;
      is >> ks;
      auto kb = unhex(ks);
      const bool r = db->remove(to_key<Key>(kb));
      out = r ? "1" : "0";
      if (r) held.erase(kb);
    } else if (op == "G") {
      std::string ks;
      is >> ks;
      auto kb = unhex(ks);
      bool lock_ok;
      auto g = do_get<Db, Key>(*db, to_key<Key>(kb), lock_ok);
      if (!g) out = "-";
      else {
        auto it = held.find(kb);
        std::string id = "?";
        if (it != held.end() && it->second.ptr == g->data() && it->second.len == g->size()) id = std::to_string(it->second.id);
        else if (it != held.end()) id = "moved";
        out = id + ":" + hex(g->data(), g->size());
      }
      if (!lock_ok) out += " LOCKBAD";
    } else if (op == "E") {
      out = db->empty() ? "1" : "0";
    } else if (op == "C") {
      db->clear();
      held.clear();
      out = "C";
    } else if (op == "S" || op == "F" || op == "Q" || op == "QA" || op == "QB") {
      std::string a, b, dir, hs;
      std::size_t alias_n = 0;
      if (op == "S") is >> dir >> hs;
      if (op == "F") is >> a >> dir >> hs;
      if (op == "Q") is >> a >> b >> hs;
      if (op == "QA" || op == "QB") is >> a >> alias_n >> hs;
      long halt = hs == "-" ? -1 : std::stol(hs);
      long calls = 0;
      std::string acc;
      auto fn = [&](const auto& v) {
        auto [kp, kn] = raw(v.get_key());
        auto [vp, vn] = raw(v.get_value());
        if (!acc.empty()) acc += ",";
        acc += hex(kp, kn) + ":" + hex(vp, vn);
        const bool stop = (halt >= 0 && calls == halt);
        ++calls;
        return stop;
      };
      auto ab = unhex(a), bb = unhex(b);
      if (op == "S") db->scan(fn, dir == "f");
      if (op == "F") db->scan_from(to_key<Key>(ab), fn, dir == "f");
      if (op == "Q") db->scan_range(to_key<Key>(ab), to_key<Key>(bb), fn);
      if (op == "QA" || op == "QB") {
        if constexpr (std::is_same_v<Key, unodb::key_view>) {
          const unodb::key_view full{ab.data(), ab.size()};
          const unodb::key_view part{ab.data(), std::min(alias_n, ab.size())};
          if (op == "QA") db->scan_range(full, part, fn);
          else db->scan_range(part, full, fn);
        }
      }
      out = acc.empty() ? "none" : acc;
    } else if (op == "D") {
      std::ostringstream os;
      db->dump(os);
      out = canon_dump(os.str());
#ifdef UNODB_DETAIL_WITH_STATS
      auto nc = db->get_node_counts();
      auto gc = db->get_growing_inode_counts();
      auto sc = db->get_shrinking_inode_counts();
      std::ostringstream st;
      st << " L=" << nc[0] << " N=" << nc[1] << "," << nc[2] << "," << nc[3] << "," << nc[4] << " G=" << gc[0] << ","
         << gc[1] << "," << gc[2] << "," << gc[3] << " S=" << sc[0] << "," << sc[1] << "," << sc[2] << "," << sc[3]
         << " SP=" << db->get_key_prefix_splits() << " M=" << db->get_current_memory_use();
      out += st.str();
#endif
      // C01: every value view obtained earlier is still readable and unchanged
      bool views_ok = true;
      for (auto& [k, h] : held)
        if (h.len != h.val.size() || (h.len != 0 && std::memcmp(h.ptr, h.val.data(), h.len) != 0)) views_ok = false;
      if (!views_ok) out += " VIEWBAD";
#ifdef UNODB_DETAIL_VERIF_HOOKS
      quiesce<Db>();
      quiesce<Db>();
      if (tracking) {
        out += " A=" + live_sizes_str() + " T=+" + multiset_str(got_sizes) + "/-" + multiset_str(returned_sizes);
        got_sizes.clear();
        returned_sizes.clear();
      }
#endif
#if defined(UNODB_DETAIL_VERIF_HOOKS) && defined(UNODB_DETAIL_WITH_STATS)
      if (tracking && live_bytes() != db->get_current_memory_use())
        out += " HEAPBAD(held=" + std::to_string(live_bytes()) + ",reported=" + std::to_string(db->get_current_memory_use()) + ")";
#endif
    } else if (op == "Z") {
      // sizes of the node classes in this build
      using namespace unodb::detail;
      if constexpr (is_olc<Db>::value) {
        using V = unodb::value_view;
        std::printf("Z %zu %zu %zu %zu %zu\n", sizeof(olc_leaf_type<Key, V>) - 1, sizeof(olc_inode_4<Key, V>),
                    sizeof(olc_inode_16<Key, V>), sizeof(olc_inode_48<Key, V>), sizeof(olc_inode_256<Key, V>));
      } else {
        using V = unodb::value_view;
        std::printf("Z %zu %zu %zu %zu %zu\n", sizeof(leaf_type<Key>) - 1, sizeof(inode_4<Key, V>), sizeof(inode_16<Key, V>),
                    sizeof(inode_48<Key, V>), sizeof(inode_256<Key, V>));
      }
      continue;
    } else {
      out = "?";
    }
    quiesce<Db>();
    std::puts(out.c_str());
  }
  db.reset();
  quiesce<Db>();
  quiesce<Db>();
  return 0;
}

}  // namespace

int main(int argc, char** argv) {
  if (argc < 3) return 2;
  const std::string cls = argv[1], kind = argv[2];
  using V = unodb::value_view;
#ifdef UNODB_DETAIL_VERIF_HOOKS
  unodb::detail::verif::obs_hook.store(&mem_obs);
#endif
  try {
    if (kind == "u64") {
      if (cls == "db") return run<unodb::db<std::uint64_t, V>, std::uint64_t>();
      if (cls == "mutex") return run<unodb::mutex_db<std::uint64_t, V>, std::uint64_t>();
      if (cls == "olc") return run<unodb::olc_db<std::uint64_t, V>, std::uint64_t>();
    } else {
      if (cls == "db") return run<unodb::db<unodb::key_view, V>, unodb::key_view>();
      if (cls == "mutex") return run<unodb::mutex_db<unodb::key_view, V>, unodb::key_view>();
      if (cls == "olc") return run<unodb::olc_db<unodb::key_view, V>, unodb::key_view>();
    }
  } catch (const std::exception& e) {
    std::printf("EXCEPTION %s\n", e.what());
    return 3;
  }
  return 2;
}
