// C05/C06 at the granularity of the atomic steps inside the QSBR calls: real
// threads under the deterministic scheduler.  The property is evaluated on
// the implementation with a ghost: for every retired block the set of threads
// (other than the requester) registered at the request that have not yet
// entered quiescent()/qsbr_pause() since.
//
// usage: qsbr_sched --prog "<t0>|<t1>|..." [--bound N] [--max N] [--random N] [--seed S] [--replay "c,c,.."] [--trace 1]
//   thread program: string over  S (start = register)  Q (quiescent)  R (retire a fresh block)
//                               P (pause, then resume)  E (exit = pause; implicit at the end)
//                               H (hold: stay registered, holding references, until the execution is over)
//                               + (increment the global phase)  <digit d> (wait until phase >= d)
#include <atomic>
#include <array>
#include <condition_variable>
#include <cstdint>
#include <cstdio>
#include <cstring>
#include <exception>
#include <functional>
#include <iostream>
#include <map>
#include <memory>
#include <mutex>
#include <optional>
#include <ostream>
#include <set>
#include <sstream>
#include <string>
#include <system_error>
#include <thread>
#include <type_traits>
#include <unordered_set>
#include <utility>
#include <vector>

#ifdef UNODB_DETAIL_WITH_STATS
#include <boost/accumulators/accumulators.hpp>
#include <boost/accumulators/framework/extractor.hpp>
#include <boost/accumulators/statistics/max.hpp>
#include <boost/accumulators/statistics/mean.hpp>
#include <boost/accumulators/statistics/stats.hpp>
#include <boost/accumulators/statistics/variance.hpp>
#endif

#include "global.hpp"
#include "heap.hpp"

#define private public
#define protected public
#include "qsbr.hpp"
#undef private
#undef protected

#include "dsched.hpp"

namespace {

struct ghost_t {
  std::mutex mu;  // only one controlled thread runs at a time; the mutex is for the uncontrolled tail
  std::set<int> registered;
  std::set<int> in_qstate;  // threads currently inside quiescent() / qsbr_pause(): they hold no references
  std::map<const void*, std::set<int>> waiting;   // pending block -> threads still to quiesce
  std::map<const void*, int> retired_by;
  std::map<const void*, int> freed_count;
  std::vector<std::string> problems;
  long retired{0}, freed{0};
  int phase{0};
  bool over{false};
  std::mutex over_mu;
  std::condition_variable over_cv;
};

ghost_t* g = nullptr;
thread_local int ghost_tid = -1;

void passed(int t) {
  for (auto& kv : g->waiting) kv.second.erase(t);
}

void obs_tap(unsigned kind, const void* addr) {
  if (g == nullptr) return;
  if (kind == unodb::detail::verif::mem_retire) {
    std::lock_guard<std::mutex> l(g->mu);
    auto ws = g->registered;
    ws.erase(ghost_tid);
    for (int t : g->in_qstate) ws.erase(t);
    g->waiting[addr] = ws;
    g->retired_by[addr] = ghost_tid;
    ++g->retired;
    if (g->registered.size() > 1) g->freed_count[addr] = 0;
  } else if (kind == unodb::detail::verif::mem_free) {
    std::lock_guard<std::mutex> l(g->mu);
    auto it = g->retired_by.find(addr);
    if (it == g->retired_by.end()) return;
    ++g->freed;
    auto w = g->waiting.find(addr);
    if (w != g->waiting.end() && !w->second.empty()) {
      std::string s = "block retired by thread " + std::to_string(it->second) + " freed while thread(s)";
      for (int t : w->second) s += " " + std::to_string(t);
      s += " registered at the request have not passed a quiescent state since";
      g->problems.push_back(s);
    }
    g->waiting.erase(addr);
    g->retired_by.erase(it);  // the address may be reused by a later allocation
  }
}

// chained observation hook: ghost first, then the scheduler's log
dsched::vk::obs_fn sched_obs = nullptr;
void obs_both(unsigned kind, const void* addr, std::uint64_t a, std::uint64_t b, std::uint64_t c) {
  obs_tap(kind, addr);
  if (sched_obs != nullptr) sched_obs(kind, addr, a, b, c);
}

// call / return markers for the fine-grained acceptor (logged through the observation hook)
constexpr unsigned kind_call = 1000, kind_ret = 1001;
void mark(unsigned kind, char op, std::uint64_t arg = 0) {
  if (auto* const f = unodb::detail::verif::obs_hook.load()) f(kind, nullptr, static_cast<std::uint64_t>(op), arg, 0);
}

int run_thread(const std::string& prog, int tid) {
  ghost_tid = tid;
  bool reg = false;
  auto start = [&](char op) {
    mark(kind_call, op);
    if (unodb::qsbr_per_thread::current_thread_instance == nullptr)
      unodb::qsbr_per_thread::current_thread_instance = std::make_unique<unodb::qsbr_per_thread>();
    else
      unodb::this_thread().qsbr_resume();
    mark(kind_ret, op);
    g->registered.insert(tid);  // counts as registered once the call has returned
    reg = true;
  };
  auto leave = [&](char op) {
    g->registered.erase(tid);
    passed(tid);  // at the entry of qsbr_pause()
    mark(kind_call, op);
    unodb::this_thread().qsbr_pause();
    mark(kind_ret, op);
    reg = false;
  };
  for (char c : prog) {
    switch (c) {
      case 'S':
        if (!reg) start('S');
        break;
      case 'Q':
        if (reg) {
          passed(tid);  // at the entry of quiescent()
          g->in_qstate.insert(tid);
          mark(kind_call, 'Q');
          unodb::this_thread().quiescent();
          mark(kind_ret, 'Q');
          g->in_qstate.erase(tid);
        }
        break;
      case 'R':
        if (reg) {
          void* p = unodb::detail::allocate_aligned(32);
          mark(kind_call, 'R', reinterpret_cast<std::uint64_t>(p));
          unodb::this_thread().on_next_epoch_deallocate(p
#ifdef UNODB_DETAIL_WITH_STATS
                                                        , 32
#endif
#ifndef NDEBUG
                                                        , nullptr
#endif
          );
          mark(kind_ret, 'R');
        }
        break;
      case 'P':
        if (reg) {
          leave('P');
          start('U');
        }
        break;
      case 'E':
        if (reg) leave('E');
        break;
      case '+':
        ++g->phase;
        break;
      case 'H':
        return 1;  // stay registered: the caller parks this thread until the execution is over
      default:
        if (c >= '0' && c <= '9') {
          const int want = c - '0';
          ghost_t* gg = g;
          dsched::g_ctl->block_until([gg, want] { return gg->phase >= want; });
        }
        break;
    }
  }
  if (reg) leave('E');
  return 0;
}

const char* kname(unsigned k) {
  namespace vk = dsched::vk;
  switch (k) {
    case vk::qsbr_load: return "QLOAD";
    case vk::qsbr_fetch_sub: return "QFSUB";
    case vk::qsbr_cas: return "QCAS";
    case vk::qsbr_spin: return "QSPIN";
    case vk::orphan_load: return "OLOAD";
    case vk::orphan_cas: return "OCAS";
    case vk::orphan_xchg: return "OXCHG";
    case vk::orphan_cas_move: return "OMOVE";
    case vk::orphan_append: return "OAPPEND";
    case vk::mem_alloc: return "ALLOC";
    case vk::mem_free: return "FREE";
    case vk::mem_retire: return "RETIRE";
    case kind_call: return "CALL";
    case kind_ret: return "RET";
    default: return "OTHER";
  }
}

// third column: the address for memory events, the list (0 previous, 1 current interval) for orphan list events
std::uint64_t third(const dsched::event& e) {
  namespace vk = dsched::vk;
  switch (e.kind) {
    case vk::mem_alloc: case vk::mem_free: case vk::mem_retire:
      return reinterpret_cast<std::uint64_t>(e.addr);
    case vk::orphan_load: case vk::orphan_cas: case vk::orphan_xchg: case vk::orphan_cas_move: case vk::orphan_append:
      return e.addr == &unodb::qsbr::instance().orphaned_previous_interval_dealloc_requests ? 0U : 1U;
    default: return e.c;
  }
}

}  // namespace

int main(int argc, char** argv) {
  std::string prog_s = "SRQQ|SQQ";
  unsigned bound = 1;
  unsigned long max_execs = 2000, nrandom = 0;
  std::uint64_t seed = 1;
  std::string replay;
  bool trace = false;
  bool main_b = false;  // the main thread stays registered and has quiesced once before the workers start
  for (int i = 1; i + 1 < argc; i += 2) {
    const std::string k = argv[i], v = argv[i + 1];
    if (k == "--prog") prog_s = v;
    if (k == "--bound") bound = static_cast<unsigned>(std::stoul(v));
    if (k == "--max") max_execs = std::stoul(v);
    if (k == "--random") nrandom = std::stoul(v);
    if (k == "--seed") seed = std::stoull(v);
    if (k == "--replay") replay = v;
    if (k == "--trace") trace = v == "1";
    if (k == "--main") main_b = v == "1";
  }
  std::vector<std::string> progs;
  {
    std::stringstream ss(prog_s);
    std::string t;
    while (std::getline(ss, t, '|')) progs.push_back(t);
  }
  // by default the main thread leaves QSBR: only the workers count
  unodb::this_thread().qsbr_pause();
  constexpr int main_tid = 99;
  unsigned long execs = 0, nproblems = 0, shown = 0;

  auto one = [&](const dsched::controller::chooser& ch) {
    ghost_t gh;
    g = &gh;
    if (main_b) {
      // thread "B": registered, passed a quiescent state in the current epoch, then holds references for the
      // whole execution (never quiesces again until the drain)
      unodb::this_thread().qsbr_resume();
      unodb::this_thread().quiescent();
      gh.registered.insert(main_tid);
    }
    dsched::controller ctl(50000);
    std::vector<std::function<void()>> bodies;
    std::vector<int> holding(progs.size(), 0);
    for (std::size_t t = 0; t < progs.size(); ++t)
      bodies.push_back([&, t]() { holding[t] = run_thread(progs[t], static_cast<int>(t)); });
    auto res = ctl.run(
        bodies, ch,
        [&gh](std::function<void()> f) {
          return std::thread([f, &gh]() {
            f();
            if (unodb::qsbr_per_thread::current_thread_instance != nullptr &&
                !unodb::qsbr_per_thread::current_thread_instance->is_qsbr_paused()) {
              // a holding thread: wait (uncontrolled) until the controlled part is over, then leave
              std::unique_lock<std::mutex> l(gh.over_mu);
              gh.over_cv.wait(l, [&] { return gh.over; });
              l.unlock();
              {
                std::lock_guard<std::mutex> gl(gh.mu);
                gh.registered.erase(ghost_tid);
                passed(ghost_tid);
              }
              unodb::this_thread().qsbr_pause();
            }
            unodb::qsbr_per_thread::current_thread_instance.reset();
          });
        },
        [] {
          // chain our ghost in front of the scheduler's observation hook
          sched_obs = dsched::vk::obs_hook.load();
          dsched::vk::obs_hook.store(&obs_both);
        },
        [&gh] {
          std::lock_guard<std::mutex> l(gh.over_mu);
          gh.over = true;
          gh.over_cv.notify_all();
        });
    ++execs;
    // C06 thread count: every worker has left
    const auto st = unodb::qsbr::instance().get_state();
    const unsigned expect_threads = main_b ? 1U : 0U;
    if (unodb::qsbr_state::get_thread_count(st) != expect_threads)
      gh.problems.push_back("thread count " + std::to_string(unodb::qsbr_state::get_thread_count(st)) + " after every worker left");
    // C06 drain: all but one thread (main) have unregistered; two quiescent states of it leave nothing pending
    dsched::vk::obs_hook.store(&obs_both);
    sched_obs = nullptr;
    if (!main_b) unodb::this_thread().qsbr_resume();
    passed(main_tid);
    unodb::this_thread().quiescent();
    unodb::this_thread().quiescent();
    if (!gh.retired_by.empty())
      gh.problems.push_back(std::to_string(gh.retired_by.size()) + " retired block(s) not freed after the drain phase");
    if (!unodb::qsbr::instance().previous_interval_orphaned_requests_empty() ||
        !unodb::qsbr::instance().current_interval_orphaned_requests_empty())
      gh.problems.push_back("orphaned requests left after the drain phase");
    unodb::this_thread().qsbr_pause();
    dsched::vk::obs_hook.store(nullptr);
    if (res.deadlock) gh.problems.push_back("deadlock: every unfinished thread spins");
    if (res.budget_exceeded) gh.problems.push_back("step budget exceeded");
    const bool bad = !gh.problems.empty();
    if (bad) ++nproblems;
    if (trace || (bad && shown < 5)) {
      ++shown;
      std::string line = "X";
      for (auto& d : res.decisions) line += " " + std::to_string(d.chosen);
      std::puts(line.c_str());
      for (auto& e : res.log)
        std::printf("E %d %s %llx %llx %llx\n", e.tid, kname(e.kind), static_cast<unsigned long long>(e.a),
                    static_cast<unsigned long long>(e.b), static_cast<unsigned long long>(third(e)));
      for (auto& p : gh.problems) std::printf("P %s\n", p.c_str());
      std::puts("Y");
    }
    g = nullptr;
    if (bad) {
      // bring QSBR back to a clean state for the next execution
      while (unodb::qsbr_state::get_thread_count(unodb::qsbr::instance().get_state()) != 0) break;
    }
    return res.decisions;
  };

  if (!replay.empty()) {
    dsched::prefix_chooser pc;
    std::stringstream ss(replay);
    std::string c;
    while (std::getline(ss, c, ',')) pc.prefix.push_back(std::stoi(c));
    trace = true;
    one(pc);
  } else {
    dsched::explore_bounded(bound, max_execs, [&](const std::vector<int>& pre) {
      dsched::prefix_chooser pc{pre};
      return one(pc);
    });
    for (unsigned long i = 0; i < nrandom; ++i) {
      dsched::random_chooser rc{dsched::rng64(seed * 1000003ULL + i), 250};
      one(std::ref(rc));
    }
  }
  std::printf("S execs=%lu problems=%lu\n", execs, nproblems);
  unodb::this_thread().qsbr_resume();
  return 0;
}
