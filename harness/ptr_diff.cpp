// C17: qsbr_ptr / qsbr_ptr_span against raw pointers, and the active-pointer
// registry against the set of live non-null wrappers.
// stdin ops (ids are small integers, addresses are offsets into one buffer, -1 = nullptr):
//   P d off | D d | C d s | M d s | AC d s | AM d s | I d | J d | PI d r | PD d r
//   AA d n | SA d n | A d r n | S d r n | X d | V (fork: is quiescent() accepted?)
// stdout per op: <id>:<addr> ... | R=<sorted registry addresses> [CMPBAD] ; addresses printed as offset+1000, null = 0
#include <algorithm>
#include <array>
#include <cstdint>
#include <cstdio>
#include <cstring>
#include <functional>
#include <iostream>
#include <map>
#include <memory>
#include <mutex>
#include <optional>
#include <ostream>
#include <sstream>
#include <span>
#include <string>
#include <system_error>
#include <thread>
#include <unordered_set>
#include <vector>
#include <atomic>
#include <condition_variable>
#include <exception>
#include <type_traits>
#include <utility>
#include <sys/wait.h>
#include <unistd.h>

#ifdef UNODB_DETAIL_WITH_STATS
#include <boost/accumulators/accumulators.hpp>
#include <boost/accumulators/framework/extractor.hpp>
#include <boost/accumulators/statistics/max.hpp>
#include <boost/accumulators/statistics/mean.hpp>
#include <boost/accumulators/statistics/stats.hpp>
#include <boost/accumulators/statistics/variance.hpp>
#endif

#include "global.hpp"
#include "heap.hpp"

#define private public
#define protected public
#include "qsbr.hpp"
#undef private
#undef protected
#include "qsbr_ptr.hpp"

namespace {

alignas(64) std::byte buffer[4096];
using W = unodb::qsbr_ptr<std::byte>;

long addr_of(const std::byte* p) { return p == nullptr ? 0 : (p - buffer) + 1000; }

}  // namespace

template <class T>
bool span_ok(std::size_t off, std::size_t n) {
  // same elements and size as the source span through copies / moves / assignments, for element type T
  std::span<T> sp(reinterpret_cast<T*>(buffer + off), n);
  unodb::qsbr_ptr_span<T> w(sp);
  auto w2 = w;
  auto w3 = std::move(w2);
  unodb::qsbr_ptr_span<T> w4;
  w4 = w3;
  bool ok = w4.size() == sp.size() && w4.begin().get() == sp.data() && w4.end().get() == sp.data() + sp.size() &&
            static_cast<std::size_t>(w4.end() - w4.begin()) == sp.size();
  std::size_t k = 0;
  for (auto it = w4.begin(); it != w4.end() && k <= n; ++it, ++k) ok = ok && *it == sp[k];
  return ok && k == sp.size();
}

int main(int argc, char** argv) {
  for (std::size_t i = 0; i < sizeof buffer; ++i) buffer[i] = static_cast<std::byte>(i * 7 + 3);
#ifndef NDEBUG
  // "multi": a second registered thread that never quiesces keeps the epoch from advancing, and this thread has
  // already announced a quiescent state in it: every probe below is a further quiescent state of the same epoch
  std::unique_ptr<unodb::qsbr_per_thread> other;
  if (argc > 1 && std::string(argv[1]) == "multi") {
    other = std::make_unique<unodb::qsbr_per_thread>();
    unodb::this_thread().quiescent();
  }
#else
  (void)argc;
  (void)argv;
#endif
  std::map<int, std::unique_ptr<W>> objs;
  std::map<int, std::byte*> shadow;  // the raw pointers
  std::string line;
  while (std::getline(std::cin, line)) {
    std::istringstream is(line);
    std::string op;
    long a = 0, b = 0, c = 0;
    is >> op >> a >> b >> c;
    const int d = static_cast<int>(a);
    bool cmpbad = false;
    std::string extra;
    if (op == "P") {
      std::byte* p = b < 0 ? nullptr : buffer + 2048 + b;
      objs[d] = std::make_unique<W>(p);
      shadow[d] = p;
    } else if (op == "D") {
      objs[d] = std::make_unique<W>();
      shadow[d] = nullptr;
    } else if (op == "C") {
      objs[d] = std::make_unique<W>(*objs[static_cast<int>(b)]);
      shadow[d] = shadow[static_cast<int>(b)];
    } else if (op == "M") {
      objs[d] = std::make_unique<W>(std::move(*objs[static_cast<int>(b)]));
      shadow[d] = shadow[static_cast<int>(b)];
      shadow[static_cast<int>(b)] = nullptr;
    } else if (op == "AC") {
      *objs[d] = *objs[static_cast<int>(b)];
      shadow[d] = shadow[static_cast<int>(b)];
    } else if (op == "AM") {
      *objs[d] = std::move(*objs[static_cast<int>(b)]);
      shadow[d] = shadow[static_cast<int>(b)];
      shadow[static_cast<int>(b)] = nullptr;
    } else if (op == "I") {
      ++*objs[d];
      ++shadow[d];
    } else if (op == "J") {
      --*objs[d];
      --shadow[d];
    } else if (op == "PI") {
      objs[static_cast<int>(b)] = std::make_unique<W>((*objs[d])++);
      shadow[static_cast<int>(b)] = shadow[d]++;
    } else if (op == "PD") {
      objs[static_cast<int>(b)] = std::make_unique<W>((*objs[d])--);
      shadow[static_cast<int>(b)] = shadow[d]--;
    } else if (op == "AA") {
      *objs[d] += b;
      shadow[d] += b;
    } else if (op == "SA") {
      *objs[d] -= b;
      shadow[d] -= b;
    } else if (op == "A") {
      objs[static_cast<int>(b)] = std::make_unique<W>(*objs[d] + c);
      shadow[static_cast<int>(b)] = shadow[d] + c;
    } else if (op == "S") {
      objs[static_cast<int>(b)] = std::make_unique<W>(*objs[d] - c);
      shadow[static_cast<int>(b)] = shadow[d] - c;
    } else if (op == "X") {
      objs.erase(d);
      shadow.erase(d);
    } else if (op == "V") {
#ifndef NDEBUG
      // is a quiescent state accepted right now?  (asserts active_ptrs.empty())
      std::fflush(stdout);
      const pid_t pid = fork();
      if (pid == 0) {
        std::fclose(stderr);
        unodb::this_thread().quiescent();
        _exit(0);
      }
      int status = 0;
      waitpid(pid, &status, 0);
      extra = (WIFEXITED(status) && WEXITSTATUS(status) == 0) ? " Q=accepted" : " Q=rejected";
#else
      extra = " Q=untracked";
#endif
    }
    // raw-pointer semantics of the observers on every pair of live wrappers
    for (auto& [i, w] : objs) {
      if (w->get() != shadow[i]) cmpbad = true;
      if (shadow[i] != nullptr) {
        if (&**w != shadow[i] || **w != *shadow[i] || (*w)[1] != shadow[i][1] || w->operator->() != shadow[i]) cmpbad = true;
      }
      for (auto& [j, v] : objs) {
        const std::byte* x = shadow[i];
        const std::byte* y = shadow[j];
        if ((*w == *v) != (x == y) || (*w < *v) != (x < y) || (*w <= *v) != (x <= y) || (*w > *v) != (x > y) || (*w >= *v) != (x >= y))
          cmpbad = true;
        if (x != nullptr && y != nullptr && (*w - *v) != (x - y)) cmpbad = true;
      }
    }
    std::string out;
    for (auto& [i, w] : objs) out += std::to_string(i) + ":" + std::to_string(addr_of(w->get())) + " ";
    out += "|";
#ifndef NDEBUG
    std::vector<long> regs;
    for (const void* p : unodb::this_thread().active_ptrs) regs.push_back(addr_of(static_cast<const std::byte*>(p)));
    std::sort(regs.begin(), regs.end());
    out += " R=";
    for (std::size_t k = 0; k < regs.size(); ++k) out += (k ? "," : "") + std::to_string(regs[k]);
#endif
    if (cmpbad) out += " CMPBAD";
    out += extra;
    std::puts(out.c_str());
  }
  // span wrapper: same elements and size through copies / moves / assignments, for 1-, 2- and 8-byte elements
  {
    const bool ok = span_ok<std::byte>(100, 37) && span_ok<std::uint16_t>(128, 5) && span_ok<std::uint64_t>(256, 3) &&
                    span_ok<const std::uint64_t>(512, 4);
    std::printf("SPAN %s\n", ok ? "ok" : "BAD");
  }
  objs.clear();
#ifndef NDEBUG
  if (other) {
    other->qsbr_pause();
  }
#endif
  return 0;
}
