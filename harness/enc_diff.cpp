// Implementation side of the encoder correspondence (C11, C12, C15).
// Reads script lines (see ocaml/enc_run.ml), runs them on the real
// unodb::key_encoder / key_decoder, prints one result line per input line.
#include "global.hpp"

#include <sys/mman.h>
#include <unistd.h>

#include <cstdint>
#include <cstdio>
#include <cstring>
#include <iostream>
#include <memory>
#include <sstream>
#include <string>
#include <vector>

#include "art_common.hpp"

namespace {

int hexval(char c) {
  if (c >= '0' && c <= '9') return c - '0';
  if (c >= 'a' && c <= 'f') return c - 'a' + 10;
  if (c >= 'A' && c <= 'F') return c - 'A' + 10;
  std::abort();
}

struct comp {
  char kind;  // U I F T
  int n;
  bool neg;
  std::uint64_t mag;
  std::vector<std::byte> text;
};

std::vector<std::byte> parse_text(const std::string& t) {
  std::vector<std::byte> out;
  auto star = t.find('*');
  std::string hex = t;
  if (star != std::string::npos) {
    auto b = static_cast<std::byte>(hexval(t[0]) * 16 + hexval(t[1]));
    auto rest = t.substr(star + 1);
    auto colon = rest.find(':');
    std::size_t cnt = std::stoul(rest.substr(0, colon));
    hex = colon == std::string::npos ? "" : rest.substr(colon + 1);
    out.assign(cnt, b);
  }
  for (std::size_t i = 0; i + 1 < hex.size(); i += 2)
    out.push_back(static_cast<std::byte>(hexval(hex[i]) * 16 + hexval(hex[i + 1])));
  return out;
}

std::string hex64(std::uint64_t v) {
  char buf[32];
  std::snprintf(buf, sizeof buf, "%llx", static_cast<unsigned long long>(v));
  return buf;
}

std::string shex(std::int64_t v) {
  if (v >= 0) return hex64(static_cast<std::uint64_t>(v));
  return "-" + hex64(static_cast<std::uint64_t>(0) - static_cast<std::uint64_t>(v));
}

// C15: encode_text must read at most maxlen bytes of its input.
void guard_page_test() {
  const long ps = sysconf(_SC_PAGESIZE);
  const std::size_t maxlen = unodb::key_encoder::maxlen;
  const std::size_t pages = (maxlen + static_cast<std::size_t>(ps) - 1) / static_cast<std::size_t>(ps) + 1;
  auto* base = static_cast<std::byte*>(mmap(nullptr, pages * static_cast<std::size_t>(ps), PROT_READ | PROT_WRITE,
                                            MAP_PRIVATE | MAP_ANONYMOUS, -1, 0));
  if (base == MAP_FAILED) std::abort();
  std::byte* guard = base + (pages - 1) * static_cast<std::size_t>(ps);
  if (mprotect(guard, static_cast<std::size_t>(ps), PROT_NONE) != 0) std::abort();
  std::byte* start = guard - maxlen;
  std::memset(start, 0x41, maxlen);
  unodb::key_encoder enc;
  // the span claims more than maxlen bytes; everything past maxlen is unreadable
  enc.encode_text(std::span<const std::byte>(start, maxlen + 4096));
  std::printf("GUARD size=%zu\n", enc.get_key_view().size());
  munmap(base, pages * static_cast<std::size_t>(ps));
}

}  // namespace

int main(int argc, char** argv) {
  if (argc > 1 && std::string(argv[1]) == "--guard") {
    guard_page_test();
    return 0;
  }
  auto enc = std::make_unique<unodb::key_encoder>();
  std::vector<comp> since;
  std::string line;
  while (std::getline(std::cin, line)) {
    if (line == "N") {
      enc = std::make_unique<unodb::key_encoder>();
      since.clear();
      std::puts("N");
      continue;
    }
    std::istringstream is(line);
    std::string tok;
    while (is >> tok) {
      if (tok == "R") {
        enc->reset();
        since.clear();
        continue;
      }
      comp c{};
      c.kind = tok[0];
      auto colon = tok.find(':');
      c.n = colon > 1 ? std::stoi(tok.substr(1, colon - 1)) : 0;
      std::string arg = tok.substr(colon + 1);
      if (c.kind == 'T') {
        c.text = parse_text(arg);
        enc->encode_text(std::span<const std::byte>(c.text.data(), c.text.size()));
      } else {
        c.neg = !arg.empty() && arg[0] == '-';
        if (c.neg) arg = arg.substr(1);
        c.mag = std::stoull(arg, nullptr, 16);
        if (c.kind == 'U') {
          switch (c.n) {
            case 1: enc->encode(static_cast<std::uint8_t>(c.mag)); break;
            case 2: enc->encode(static_cast<std::uint16_t>(c.mag)); break;
            case 4: enc->encode(static_cast<std::uint32_t>(c.mag)); break;
            case 8: enc->encode(static_cast<std::uint64_t>(c.mag)); break;
            default: std::abort();
          }
        } else if (c.kind == 'I') {
          const std::uint64_t two = c.neg ? (static_cast<std::uint64_t>(0) - c.mag) : c.mag;
          switch (c.n) {
            case 1: enc->encode(static_cast<std::int8_t>(static_cast<std::uint8_t>(two))); break;
            case 2: enc->encode(static_cast<std::int16_t>(static_cast<std::uint16_t>(two))); break;
            case 4: enc->encode(static_cast<std::int32_t>(static_cast<std::uint32_t>(two))); break;
            case 8: enc->encode(static_cast<std::int64_t>(two)); break;
            default: std::abort();
          }
        } else if (c.kind == 'F') {
          if (c.n == 4) {
            float f;
            auto u = static_cast<std::uint32_t>(c.mag);
            std::memcpy(&f, &u, 4);
            enc->encode(f);
          } else {
            double d;
            std::memcpy(&d, &c.mag, 8);
            enc->encode(d);
          }
        } else {
          std::abort();
        }
      }
      since.push_back(c);
    }
    auto kv = enc->get_key_view();
    std::string out = "V=";
    static const char* hx = "0123456789abcdef";
    for (auto b : kv) {
      out.push_back(hx[static_cast<unsigned>(b) >> 4]);
      out.push_back(hx[static_cast<unsigned>(b) & 15]);
    }
    out += " C=" + std::to_string(enc->capacity()) + " D=";
    bool fixed = true;
    for (auto& c : since) fixed = fixed && c.kind != 'T';
    if (!fixed) {
      out += "-";
    } else {
      unodb::key_decoder dec(kv);
      bool first = true;
      for (auto& c : since) {
        if (!first) out += ",";
        first = false;
        if (c.kind == 'U') {
          switch (c.n) {
            case 1: { std::uint8_t v; dec.decode(v); out += hex64(v); break; }
            case 2: { std::uint16_t v; dec.decode(v); out += hex64(v); break; }
            case 4: { std::uint32_t v; dec.decode(v); out += hex64(v); break; }
            default: { std::uint64_t v; dec.decode(v); out += hex64(v); break; }
          }
        } else if (c.kind == 'I') {
          switch (c.n) {
            case 1: { std::int8_t v; dec.decode(v); out += shex(v); break; }
            case 2: { std::int16_t v; dec.decode(v); out += shex(v); break; }
            case 4: { std::int32_t v; dec.decode(v); out += shex(v); break; }
            default: { std::int64_t v; dec.decode(v); out += shex(v); break; }
          }
        } else {
          if (c.n == 4) { float f; dec.decode(f); std::uint32_t u; std::memcpy(&u, &f, 4); out += hex64(u); }
          else { double d; dec.decode(d); std::uint64_t u; std::memcpy(&u, &d, 8); out += hex64(u); }
        }
      }
    }
    std::puts(out.c_str());
  }
  return 0;
}
