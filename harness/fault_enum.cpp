// C08: for every insert / remove of a history and every k, fail exactly from
// the k-th allocation made by that operation (the library's own injector,
// active because this harness is built WITHOUT NDEBUG), check that the
// exception reaches the caller and that the index is observably unchanged
// (canonical dump, statistics, full scan, live allocation set), then repeat
// the operation without the fault.  Also: length errors for over-long keys /
// values, and allocation failures in QSBR thread start / resume / deferred
// deallocation requests.
// usage: fault_enum <db|mutex|olc> <u64|bytes>   (ops on stdin: N | I key val | R key | G key | LK | LV | QSBR)
// stdout per I/R: <result> a=<number of allocations the operation makes> [PROBLEM: ...]
#include "global.hpp"

#include <cstdint>
#include <cstdio>
#include <cstring>
#include <iostream>
#include <map>
#include <memory>
#include <new>
#include <optional>
#include <sstream>
#include <stdexcept>
#include <string>
#include <vector>

#include "art.hpp"
#include "mutex_art.hpp"
#include "olc_art.hpp"
#include "qsbr.hpp"
#include "test_heap.hpp"

namespace {

using bytes = std::vector<std::byte>;

int hexval(char c) {
  if (c >= '0' && c <= '9') return c - '0';
  if (c >= 'a' && c <= 'f') return c - 'a' + 10;
  std::abort();
}
bytes unhex(const std::string& s) {
  bytes out;
  if (s == "-") return out;
  for (std::size_t i = 0; i + 1 < s.size(); i += 2)
    out.push_back(static_cast<std::byte>(hexval(s[i]) * 16 + hexval(s[i + 1])));
  return out;
}

template <typename Key>
Key to_key(const bytes& b) {
  if constexpr (std::is_same_v<Key, unodb::key_view>) {
    return unodb::key_view{b.data(), b.size()};
  } else {
    std::uint64_t v = 0;
    for (std::size_t i = 0; i < 8; ++i) v = (v << 8) | static_cast<std::uint64_t>(i < b.size() ? b[i] : std::byte{0});
    return v;
  }
}

// live allocation set through the verification hooks
std::map<const void*, std::uint64_t> live;
bool tracking = false;
void obs(unsigned kind, const void* addr, std::uint64_t a, std::uint64_t, std::uint64_t) {
  if (!tracking) return;
  unodb::test::pause_heap_faults guard{};
  if (kind == unodb::detail::verif::mem_alloc) live[addr] = a;
  if (kind == unodb::detail::verif::mem_free) live.erase(addr);
}

template <class Db>
struct is_olc : std::false_type {};
template <class K, class V>
struct is_olc<unodb::olc_db<K, V>> : std::true_type {};

template <class Db>
void quiesce() {
  if constexpr (is_olc<Db>::value) unodb::this_thread().quiescent();
}

template <class View>
std::pair<const std::byte*, std::size_t> raw(const View& v) {
  if constexpr (requires { v.data(); }) {
    return {v.data(), v.size()};
  } else {
    return {v.begin().get(), v.size()};
  }
}

// everything observable about the index, as one string
template <class Db>
std::string observe(Db& db) {
  unodb::test::pause_heap_faults guard{};
  std::ostringstream os;
  db.dump(os);
  std::string d = os.str();
  // addresses are stable across a failed operation, so the raw dump may be compared as is
  std::string scan;
  db.scan([&](const auto& v) {
    auto [kp, kn] = raw(v.get_key());
    auto [vp, vn] = raw(v.get_value());
    scan.append(reinterpret_cast<const char*>(kp), kn);
    scan.push_back('=');
    scan.append(reinterpret_cast<const char*>(vp), vn);
    scan.push_back(';');
    return false;
  });
  std::ostringstream st;
#ifdef UNODB_DETAIL_WITH_STATS
  auto nc = db.get_node_counts();
  auto gc = db.get_growing_inode_counts();
  auto sc = db.get_shrinking_inode_counts();
  for (auto x : nc) st << x << ',';
  for (auto x : gc) st << x << ',';
  for (auto x : sc) st << x << ',';
  st << db.get_key_prefix_splits() << ',' << db.get_current_memory_use();
#endif
  std::uint64_t bytes_live = 0;
  for (auto& kv : live) bytes_live += kv.second;
  st << " live=" << live.size() << '/' << bytes_live << " empty=" << db.empty();
  return d + "|" + scan + "|" + st.str();
}

template <class Db, class Key>
int run() {
  auto db = std::make_unique<Db>();
  tracking = true;
  std::string line;
  while (std::getline(std::cin, line)) {
    std::istringstream is(line);
    std::string op, ks, vs;
    is >> op >> ks >> vs;
    std::string out;
    if (op == "N") {
      tracking = false;
      db.reset();
      quiesce<Db>();
      quiesce<Db>();
      live.clear();
      tracking = true;
      db = std::make_unique<Db>();
      out = "N";
    } else if (op == "I" || op == "R") {
      auto kb = unhex(ks);
      auto vb = unhex(vs);
      std::string problems;
      const std::string before = observe(*db);
      unsigned k = 1;
      bool result = false;
      for (;; ++k) {
        bool threw = false;
        UNODB_DETAIL_FAIL_ON_NTH_ALLOCATION(k);
        try {
          if (op == "I") result = db->insert(to_key<Key>(kb), unodb::value_view{vb.data(), vb.size()});
          else result = db->remove(to_key<Key>(kb));
        } catch (const std::bad_alloc&) {
          threw = true;
        }
        UNODB_DETAIL_RESET_ALLOCATION_FAILURE_INJECTOR();
        if (!threw) break;
        quiesce<Db>();
        const std::string after = observe(*db);
        if (after != before && problems.empty())
          problems = " PROBLEM: state changed by an operation that failed at its allocation #" + std::to_string(k);
        if (k > 16) {
          problems += " PROBLEM: more than 16 allocation points";
          break;
        }
      }
      quiesce<Db>();
      out = std::string(result ? "1" : "0") + " a=" + std::to_string(k - 1) + problems;
    } else if (op == "G") {
      auto kb = unhex(ks);
      auto r = db->get(to_key<Key>(kb));
      if constexpr (requires { r.first; }) out = r.first ? "1" : "0";
      else out = r ? "1" : "0";
    } else if (op == "LK" || op == "LV") {
      // over-long key / value: a span that only claims 2^32 bytes; it must be rejected before it is read
      static std::byte dummy[16] = {};
      const std::string before = observe(*db);
      bool le = false;
      try {
        if (op == "LV") {
          auto kb = unhex("0102030405060708");
          (void)db->insert(to_key<Key>(kb), unodb::value_view{dummy, static_cast<std::size_t>(1ULL << 32)});
        } else {
          if constexpr (std::is_same_v<Key, unodb::key_view>) {
            (void)db->insert(unodb::key_view{dummy, static_cast<std::size_t>(1ULL << 32)}, unodb::value_view{dummy, 1});
          } else {
            le = true;  // fixed-width keys cannot be too long
          }
        }
      } catch (const std::length_error&) {
        le = true;
      }
      quiesce<Db>();
      out = le ? "length_error" : "NO-length_error";
      if (observe(*db) != before) out += " PROBLEM: state changed by a rejected operation";
    } else {
      out = "?";
    }
    std::puts(out.c_str());
  }
  tracking = false;
  db.reset();
  quiesce<Db>();
  quiesce<Db>();
  return 0;
}

// QSBR: allocation failures in thread start, resume and deferred-deallocation requests
int run_qsbr() {
  using unodb::qsbr;
  using unodb::qsbr_per_thread;
  auto word = [] { return qsbr::instance().get_state(); };
  int problems = 0;
  // thread start
  {
    const auto w0 = word();
    unsigned k = 1;
    std::unique_ptr<qsbr_per_thread> t;
    for (;; ++k) {
      bool threw = false;
      UNODB_DETAIL_FAIL_ON_NTH_ALLOCATION(k);
      try {
        t = std::make_unique<qsbr_per_thread>();
      } catch (const std::bad_alloc&) {
        threw = true;
      }
      UNODB_DETAIL_RESET_ALLOCATION_FAILURE_INJECTOR();
      if (!threw) break;
      if (word() != w0) {
        ++problems;
        std::printf("PROBLEM: QSBR state changed by a thread start that failed at allocation #%u\n", k);
      }
    }
    std::printf("start a=%u threads=%u\n", k - 1, unodb::qsbr_state::get_thread_count(word()));
    // deferred-deallocation request with two threads registered (requests are queued in a vector)
    for (int round = 0; round < 3; ++round) {
      void* p = unodb::detail::allocate_aligned(16);
      const auto w1 = word();
      const bool was_empty = t->current_interval_requests_empty();
      unsigned j = 1;
      for (;; ++j) {
        bool threw = false;
        UNODB_DETAIL_FAIL_ON_NTH_ALLOCATION(j);
        try {
          t->on_next_epoch_deallocate(p
#ifdef UNODB_DETAIL_WITH_STATS
                                      , 16
#endif
                                      , nullptr);
        } catch (const std::bad_alloc&) {
          threw = true;
        }
        UNODB_DETAIL_RESET_ALLOCATION_FAILURE_INJECTOR();
        if (!threw) break;
        if (word() != w1 || t->current_interval_requests_empty() != was_empty) {
          ++problems;
          std::printf("PROBLEM: QSBR state changed by a deallocation request that failed at allocation #%u\n", j);
        }
      }
      std::printf("retire a=%u\n", j - 1);
    }
    // a request made by a thread that has not yet observed the latest epoch (the request opens a new interval):
    // t passes first, this thread passes last and changes the epoch, then t's request fails at every allocation point
    for (int round = 0; round < 2; ++round) {
      void* p0 = unodb::detail::allocate_aligned(16);
      t->on_next_epoch_deallocate(p0
#ifdef UNODB_DETAIL_WITH_STATS
                                  , 16
#endif
                                  , nullptr);
      t->quiescent();
      unodb::this_thread().quiescent();  // epoch changes; t still has the old one
      void* p = unodb::detail::allocate_aligned(16);
      auto snap = [&] {
        std::ostringstream os;
        os << word() << ',' << t->previous_interval_requests_empty() << ',' << t->current_interval_requests_empty()
#ifdef UNODB_DETAIL_WITH_STATS
           << ',' << t->get_current_interval_total_dealloc_size()
#endif
            ;
        return os.str();
      };
      const std::string before = snap();
      unsigned j = 1;
      for (;; ++j) {
        bool threw = false;
        UNODB_DETAIL_FAIL_ON_NTH_ALLOCATION(j);
        try {
          t->on_next_epoch_deallocate(p
#ifdef UNODB_DETAIL_WITH_STATS
                                      , 16
#endif
                                      , nullptr);
        } catch (const std::bad_alloc&) {
          threw = true;
        }
        UNODB_DETAIL_RESET_ALLOCATION_FAILURE_INJECTOR();
        if (!threw) break;
        if (snap() != before) {
          ++problems;
          std::printf("PROBLEM: QSBR state changed by a deallocation request (new interval) that failed at allocation #%u: %s -> %s\n", j,
                      before.c_str(), snap().c_str());
        }
        if (j > 8) break;
      }
      std::printf("retire-new-interval a=%u\n", j - 1);
      t->quiescent();
      unodb::this_thread().quiescent();
    }
    // pause, then resume with failures
    t->qsbr_pause();
    const auto w2 = word();
    unsigned r = 1;
    for (;; ++r) {
      bool threw = false;
      UNODB_DETAIL_FAIL_ON_NTH_ALLOCATION(r);
      try {
        t->qsbr_resume();
      } catch (const std::bad_alloc&) {
        threw = true;
      }
      UNODB_DETAIL_RESET_ALLOCATION_FAILURE_INJECTOR();
      if (!threw) break;
      if (word() != w2 || !t->is_qsbr_paused()) {
        ++problems;
        std::printf("PROBLEM: QSBR state changed by a resume that failed at allocation #%u\n", r);
      }
    }
    std::printf("resume a=%u threads=%u\n", r - 1, unodb::qsbr_state::get_thread_count(word()));
    t->quiescent();
    unodb::this_thread().quiescent();
    t->quiescent();
    unodb::this_thread().quiescent();
    t.reset();
  }
  unodb::this_thread().quiescent();
  unodb::this_thread().quiescent();
  std::printf("QSBR problems=%d\n", problems);
  return 0;
}

}  // namespace

int main(int argc, char** argv) {
  if (argc >= 2 && std::string(argv[1]) == "qsbr") return run_qsbr();
  if (argc < 3) return 2;
  unodb::detail::verif::obs_hook.store(&obs);
  const std::string cls = argv[1], kind = argv[2];
  using V = unodb::value_view;
  if (kind == "u64") {
    if (cls == "db") return run<unodb::db<std::uint64_t, V>, std::uint64_t>();
    if (cls == "mutex") return run<unodb::mutex_db<std::uint64_t, V>, std::uint64_t>();
    if (cls == "olc") return run<unodb::olc_db<std::uint64_t, V>, std::uint64_t>();
  } else {
    if (cls == "db") return run<unodb::db<unodb::key_view, V>, unodb::key_view>();
    if (cls == "mutex") return run<unodb::mutex_db<unodb::key_view, V>, unodb::key_view>();
    if (cls == "olc") return run<unodb::olc_db<unodb::key_view, V>, unodb::key_view>();
  }
  return 2;
}
