// C03 / C04 / C09 / C14: the real olc_db driven by 2-3 QSBR threads under the
// deterministic scheduler.  Every lock-word access, protected-field access,
// QSBR word access and allocate/free is a scheduling point / observation.
//
// usage: olc_sched --init "k,k,.." --prog "<t0>|<t1>|.." [--bound N] [--max N] [--random N] [--seed S]
//                  [--qs every|end] [--replay "c,c,.."] [--sample N] [--mode dfs|single] [--snap 0|1|2]
//   keys are hex numbers (uint64 keys); thread program = ';'-separated ops:
//     G<k> get   I<k> insert   R<k> remove   S<f|r> scan   F<k><f|r> scan_from   Q<a>-<b> scan_range   q quiescent state
// output per execution (always): X schedule / J init entries / C calls / V scans / P problems / Y
//   with --snap 1|2 also: SNAP <clock> <canonical dump> for the initial tree and for every writer-quiescent moment (no
//   write guard held by any thread) of the controlled part, and one SNAPSTAT line (see "writer-quiescent snapshots")
//   with --sample N every N-th execution (and every execution with problems) also prints its event trace (E lines)
#include <algorithm>
#include <array>
#include <atomic>
#include <condition_variable>
#include <cstdint>
#include <cstdio>
#include <cstring>
#include <exception>
#include <functional>
#include <iostream>
#include <map>
#include <memory>
#include <mutex>
#include <optional>
#include <ostream>
#include <set>
#include <sstream>
#include <string>
#include <system_error>
#include <thread>
#include <type_traits>
#include <unordered_set>
#include <utility>
#include <vector>

#ifdef UNODB_DETAIL_WITH_STATS
#include <boost/accumulators/accumulators.hpp>
#include <boost/accumulators/framework/extractor.hpp>
#include <boost/accumulators/statistics/max.hpp>
#include <boost/accumulators/statistics/mean.hpp>
#include <boost/accumulators/statistics/stats.hpp>
#include <boost/accumulators/statistics/variance.hpp>
#endif

#include "global.hpp"
#include "heap.hpp"

#define private public
#define protected public
#include "qsbr.hpp"
#undef private
#undef protected

#include "art.hpp"
#include "olc_art.hpp"

#include "dsched.hpp"
#include "canon_dump.hpp"

namespace {

namespace vk = dsched::vk;
using db_t = unodb::olc_db<std::uint64_t, unodb::value_view>;

// markers in the event log around every get / insert / remove (for the read-protocol acceptor)
constexpr unsigned op_begin_kind = 1000, op_end_kind = 1001;

struct op {
  char kind;  // G I R S F Q q
  std::uint64_t a{0}, b{0};
  bool fwd{true};
  unsigned halt{0};  // scans: the visitor halts the scan at its halt-th call (0: never)
};

struct call_rec {
  int tid;
  char kind;
  std::uint64_t key, val;
  bool ok;
  std::uint64_t got;
  unsigned long inv, ret;
};

struct scan_rec {
  int tid;
  char kind;
  std::uint64_t a, b;
  bool fwd;
  unsigned long inv, ret;
  std::vector<std::pair<std::uint64_t, std::uint64_t>> seen;
  std::vector<unsigned long> stamps;  // clock value at each visitor call
  bool halted{false};
};

struct held_view {
  const std::byte* ptr;
  std::size_t len;
  std::uint64_t copy;
};

struct exec_state {
  std::unique_ptr<db_t> db;
  std::atomic<unsigned long> clock{0};
  std::mutex mu;
  std::vector<call_rec> calls;
  std::vector<scan_rec> scans;
  std::vector<std::string> problems;
  std::vector<std::vector<held_view>> held;  // per thread, until its next quiescent state
};

std::uint64_t value_of(std::uint64_t key, unsigned tag) { return (key << 16) | tag; }

std::vector<std::vector<op>> parse_progs(const std::string& s) {
  std::vector<std::vector<op>> out;
  std::stringstream ts(s);
  std::string t;
  while (std::getline(ts, t, '|')) {
    std::vector<op> prog;
    std::stringstream as(t);
    std::string a;
    while (std::getline(as, a, ';')) {
      if (a.empty()) continue;
      op o;
      if (auto bang = a.find('!'); bang != std::string::npos) {
        o.halt = static_cast<unsigned>(std::stoul(a.substr(bang + 1)));
        a = a.substr(0, bang);
      }
      o.kind = a[0];
      if (o.kind == 'G' || o.kind == 'I' || o.kind == 'R') o.a = std::stoull(a.substr(1), nullptr, 16);
      if (o.kind == 'S') o.fwd = a[1] == 'f';
      if (o.kind == 'F') {
        o.fwd = a.back() == 'f';
        o.a = std::stoull(a.substr(1, a.size() - 2), nullptr, 16);
      }
      if (o.kind == 'Q') {
        auto dash = a.find('-');
        o.a = std::stoull(a.substr(1, dash - 1), nullptr, 16);
        o.b = std::stoull(a.substr(dash + 1), nullptr, 16);
      }
      prog.push_back(o);
    }
    out.push_back(prog);
  }
  return out;
}

void check_held(exec_state& st, int tid) {
  for (auto& h : st.held[static_cast<std::size_t>(tid)]) {
    std::uint64_t now = 0;
    std::memcpy(&now, h.ptr, std::min<std::size_t>(h.len, 8));
    if (h.len != 8 || now != h.copy) {
      std::lock_guard<std::mutex> l(st.mu);
      st.problems.push_back("C04: value bytes obtained by thread " + std::to_string(tid) + " changed before its next quiescent state");
    }
  }
}

void quiesce(exec_state& st, int tid) {
  check_held(st, tid);
  st.held[static_cast<std::size_t>(tid)].clear();
  unodb::this_thread().quiescent();
}

std::uint64_t key_of_view(unodb::key_view kv) {
  std::uint64_t v = 0;
  for (std::size_t i = 0; i < kv.size() && i < 8; ++i) v = (v << 8) | static_cast<std::uint64_t>(kv[i]);
  return v;
}

void run_thread(exec_state& st, const std::vector<op>& prog, int tid, bool qs_every) {
  unsigned opi = 0;
  for (const auto& o : prog) {
    ++opi;
    if (o.kind == 'q') {
      quiesce(st, tid);
      continue;
    }
    if (o.kind == 'G' || o.kind == 'I' || o.kind == 'R') {
      call_rec r{};
      r.tid = tid;
      r.kind = o.kind;
      r.key = o.a;
      r.inv = st.clock.fetch_add(1);
      if (auto hk = unodb::detail::verif::obs_hook.load()) hk(op_begin_kind, nullptr, static_cast<std::uint64_t>(o.kind), o.a, 0);
      if (o.kind == 'G') {
        auto g = st.db->get(o.a);
        r.ok = g.has_value();
        if (r.ok) {
          const std::byte* p = g->begin().get();
          std::memcpy(&r.got, p, std::min<std::size_t>(g->size(), 8));
          st.held[static_cast<std::size_t>(tid)].push_back(held_view{p, g->size(), r.got});
        }
      } else if (o.kind == 'I') {
        r.val = value_of(o.a, static_cast<unsigned>(tid + 1) * 256U + opi);
        r.ok = st.db->insert(o.a, unodb::value_view{reinterpret_cast<const std::byte*>(&r.val), sizeof r.val});
      } else {
        r.ok = st.db->remove(o.a);
      }
      if (auto hk = unodb::detail::verif::obs_hook.load()) hk(op_end_kind, nullptr, r.ok ? 1 : 0, 0, 0);
      r.ret = st.clock.fetch_add(1);
      std::lock_guard<std::mutex> l(st.mu);
      st.calls.push_back(r);
    } else {
      scan_rec s{};
      s.tid = tid;
      s.kind = o.kind;
      s.a = o.a;
      s.b = o.b;
      s.fwd = o.fwd;
      s.inv = st.clock.fetch_add(1);
      auto fn = [&](const auto& v) {
        auto k = v.get_key();
        auto val = v.get_value();
        std::uint64_t vv = 0;
        const std::byte* p = val.begin().get();
        std::memcpy(&vv, p, std::min<std::size_t>(val.size(), 8));
        s.seen.emplace_back(key_of_view(k), vv);
        s.stamps.push_back(st.clock.fetch_add(1));
        st.held[static_cast<std::size_t>(tid)].push_back(held_view{p, val.size(), vv});
        if (o.halt != 0 && s.seen.size() == o.halt) {
          s.halted = true;
          return true;
        }
        return false;
      };
      if (auto hk = unodb::detail::verif::obs_hook.load()) hk(op_begin_kind, nullptr, static_cast<std::uint64_t>(o.kind), o.a, 0);
      if (o.kind == 'S') st.db->scan(fn, o.fwd);
      if (o.kind == 'F') st.db->scan_from(o.a, fn, o.fwd);
      if (o.kind == 'Q') st.db->scan_range(o.a, o.b, fn);
      if (auto hk = unodb::detail::verif::obs_hook.load()) hk(op_end_kind, nullptr, 1, 0, 0);
      s.ret = st.clock.fetch_add(1);
      std::lock_guard<std::mutex> l(st.mu);
      st.scans.push_back(s);
    }
    if (qs_every) quiesce(st, tid);
  }
  quiesce(st, tid);
  unodb::this_thread().qsbr_pause();
}

// ---- writer-quiescent snapshots (C03, --snap) -----------------------------------
// The hooks the controller installs are wrapped: the wrapper counts the write guards held by all controlled threads
// (successful UPGRADE +1, WUNLOCK / WOBSOLETE -1; the root-pointer lock is an optimistic_lock like any other) and, whenever
// the count returns to 0, dumps the whole tree from inside the observation callback of that unlock.  Exactly one
// controlled thread runs at a time, so the unlocked read of the tree is safe; while the dump runs the thread-local flag
// below makes both hook entry points return at once, so the dump's own loads are neither scheduling points nor events.
// mode 1: a moment is dumped only if some protected field was stored to since the previous dump (nothing else can change
// the tree: leaves are immutable once published, and publication is such a store); mode 2: every moment is dumped.
struct snap_state {
  int mode{0};
  const db_t* db{nullptr};
  std::atomic<unsigned long>* clock{nullptr};
  dsched::controller* ctl{nullptr};
  std::mutex mu;
  long guards{0};
  bool dirty{false};
  bool off{false};  // the controller gave up (deadlock / budget): threads run freely, no more snapshots
  bool negative{false};
  unsigned long moments{0};
  std::vector<std::pair<unsigned long, std::string>> snaps;
};
snap_state* g_snap = nullptr;
thread_local bool tl_hooks_off = false;
vk::sched_fn inner_sched = nullptr;
vk::obs_fn inner_obs = nullptr;

std::string snapshot_of(const db_t& db) {
  tl_hooks_off = true;
  std::string out;
  try {
    std::ostringstream os;
    db.dump(os);
    out = canon::canon_dump(os.str());
  } catch (const std::exception& e) {
    out = std::string("UNPARSABLE(") + e.what() + ")";
    for (auto& c : out)
      if (c == ' ' || c == '\n') c = '_';
  }
  tl_hooks_off = false;
  return out;
}

void snap_sched(unsigned kind, const void* addr) {
  if (tl_hooks_off) return;
  if (inner_sched != nullptr) inner_sched(kind, addr);
}

void snap_obs(unsigned kind, const void* addr, std::uint64_t a, std::uint64_t b, std::uint64_t c) {
  if (tl_hooks_off) return;
  if (inner_obs != nullptr) inner_obs(kind, addr, a, b, c);
  snap_state* s = g_snap;
  if (s == nullptr || dsched::my_tid < 0) return;
  const bool release = kind == vk::lock_unlock || kind == vk::lock_obsolete;
  if (!release && kind != vk::cs_store && !(kind == vk::lock_cas && b == 1)) return;
  std::lock_guard<std::mutex> l(s->mu);
  if (kind == vk::cs_store) s->dirty = true;
  if (kind == vk::lock_cas) ++s->guards;
  if (!release) return;
  --s->guards;
  if (s->guards < 0) s->negative = true;
  if (s->guards != 0 || s->off) return;
  if (s->ctl->free_running()) {
    s->off = true;
    return;
  }
  ++s->moments;
  if (s->mode == 1 && !s->dirty) return;
  s->dirty = false;
  const auto stamp = s->clock->fetch_add(1);
  s->snaps.emplace_back(stamp, snapshot_of(*s->db));
}

const char* kname(unsigned k) {
  switch (k) {
    case vk::lock_load: return "RLOCK";
    case vk::lock_spin: return "SPIN";
    case vk::lock_check: return "CHECK";
    case vk::lock_cas: return "UPGRADE";
    case vk::lock_unlock: return "WUNLOCK";
    case vk::lock_obsolete: return "WOBSOLETE";
    case vk::cs_load: return "LOAD";
    case vk::cs_store: return "STORE";
    case vk::mem_alloc: return "ALLOC";
    case vk::mem_free: return "FREE";
    case vk::mem_retire: return "RETIRE";
    default: return "QSBR";
  }
}

struct block {
  std::uintptr_t lo, hi;
  int id;
  int owner;          // allocating thread (-1: set-up)
  bool locked_once;   // a lock event has been seen on it: initialisation is over
  int writer;         // current write-guard holder or -1
  int dead_owner = -1;  // thread that marked it obsolete (it may finish unlinking the dead node: no reader can validate it)
  bool retired = false; // handed to deferred reclamation
};

// post-execution analysis of the event log: use of freed nodes, stores without the node's write lock
void analyse(const dsched::result& res, exec_state& st, const db_t* db, std::vector<std::string>* trace_out) {
  std::map<std::uintptr_t, block> live;  // by lo
  std::map<std::uintptr_t, block> freed;
  int next_id = 0;
  // the index object itself: root pointer guarded by root_pointer_lock
  {
    block b{reinterpret_cast<std::uintptr_t>(db), reinterpret_cast<std::uintptr_t>(db) + sizeof(db_t), next_id++, -1, true, -1};
    live[b.lo] = b;
  }
  auto find_in = [](std::map<std::uintptr_t, block>& m, std::uintptr_t a) -> block* {
    auto it = m.upper_bound(a);
    if (it == m.begin()) return nullptr;
    --it;
    return (a >= it->second.lo && a < it->second.hi) ? &it->second : nullptr;
  };
  bool uaf_reported = false, disc_reported = false, direct_free_reported = false;
  for (const auto& e : res.log) {
    const auto a = reinterpret_cast<std::uintptr_t>(e.addr);
    if (e.kind == vk::mem_alloc) {
      // a reused address is alive again
      for (auto it = freed.begin(); it != freed.end();)
        if (it->second.lo < a + e.a && a < it->second.hi) it = freed.erase(it);
        else ++it;
      live[a] = block{a, a + e.a, next_id++, e.tid, false, -1};
      if (trace_out) trace_out->push_back("E " + std::to_string(e.tid) + " ALLOC " + std::to_string(live[a].id) + " 0 " + std::to_string(e.a) + " 0");
      continue;
    }
    if (e.kind == vk::mem_free) {
      auto it = live.find(a);
      if (it != live.end()) {
        if (it->second.locked_once && !it->second.retired && it->second.owner >= -1 && !direct_free_reported && e.tid >= 0) {
          direct_free_reported = true;
          st.problems.push_back("C04: thread " + std::to_string(e.tid) +
                                " handed a node that had been shared (its lock was used) straight back to the allocator instead of to deferred reclamation");
        }
        if (trace_out) trace_out->push_back("E " + std::to_string(e.tid) + " FREE " + std::to_string(it->second.id) + " 0 0 0");
        freed[a] = it->second;
        live.erase(it);
      }
      continue;
    }
    if (e.kind == vk::mem_retire) {
      block* b = find_in(live, a);
      if (b) {
        if (b->retired && !direct_free_reported) {
          direct_free_reported = true;
          st.problems.push_back("C04: a node was handed to deferred reclamation twice");
        }
        b->retired = true;
      }
      if (trace_out && b) trace_out->push_back("E " + std::to_string(e.tid) + " RETIRE " + std::to_string(b->id) + " 0 0 0");
      continue;
    }
    if (e.kind == op_begin_kind || e.kind == op_end_kind) {
      if (trace_out)
        trace_out->push_back("E " + std::to_string(e.tid) + (e.kind == op_begin_kind ? " OPBEGIN 0 0 " : " OPEND 0 0 ") +
                             std::to_string(e.a) + " " + std::to_string(e.b));
      continue;
    }
    const bool lock_ev = e.kind >= vk::lock_load && e.kind <= vk::lock_obsolete;
    const bool cs_ev = e.kind == vk::cs_load || e.kind == vk::cs_store;
    if (!lock_ev && !cs_ev) continue;
    block* fb = find_in(freed, a);
    if (fb != nullptr && !uaf_reported) {
      uaf_reported = true;
      st.problems.push_back("C04: thread " + std::to_string(e.tid) + " accessed (" + kname(e.kind) + ") a node after it was handed back to the allocator");
    }
    block* b = find_in(live, a);
    if (b == nullptr) continue;  // not a tree node (e.g. iterator-local)
    if (trace_out)
      trace_out->push_back("E " + std::to_string(e.tid) + " " + kname(e.kind) + " " + std::to_string(b->id) + " " +
                           std::to_string(a - b->lo) + " " + std::to_string(e.a) + " " + std::to_string(e.b));
    if (lock_ev) {
      b->locked_once = true;
      if (e.kind == vk::lock_cas && e.b == 1) b->writer = e.tid;
      if (e.kind == vk::lock_obsolete && b->writer == e.tid) b->dead_owner = e.tid;
      if (e.kind == vk::lock_unlock || e.kind == vk::lock_obsolete) b->writer = -1;
    } else if (e.kind == vk::cs_store) {
      const bool init = !b->locked_once && b->owner == e.tid;
      if (!init && b->writer != e.tid && b->dead_owner != e.tid && !disc_reported) {
        disc_reported = true;
        st.problems.push_back("C03: thread " + std::to_string(e.tid) + " wrote a field of a node without holding that node's write lock");
      }
    }
  }
  // C04 / C10: after the drain every unlinked node has been freed: what is still allocated is exactly the tree
  std::uint64_t bytes = 0;
  for (auto& kv : live)
    if (kv.second.id != 0) bytes += kv.second.hi - kv.second.lo;
#ifdef UNODB_DETAIL_WITH_STATS
  if (bytes != db->get_current_memory_use())
    st.problems.push_back("C04: " + std::to_string(bytes) + " bytes still allocated after the drain, the index accounts for " +
                          std::to_string(db->get_current_memory_use()));
#endif
}

}  // namespace

int main(int argc, char** argv) {
  std::string init_s = "1,2", prog_s = "G1|I3", replay, mode = "dfs";
  unsigned bound = 1;
  unsigned long max_execs = 2000, nrandom = 0, sample = 0;
  std::uint64_t seed = 1;
  bool qs_every = true;
  int snap_mode = 0;
  for (int i = 1; i + 1 < argc; i += 2) {
    const std::string k = argv[i], v = argv[i + 1];
    if (k == "--init") init_s = v;
    if (k == "--prog") prog_s = v;
    if (k == "--bound") bound = static_cast<unsigned>(std::stoul(v));
    if (k == "--max") max_execs = std::stoul(v);
    if (k == "--random") nrandom = std::stoul(v);
    if (k == "--seed") seed = std::stoull(v);
    if (k == "--replay") replay = v;
    if (k == "--sample") sample = std::stoul(v);
    if (k == "--qs") qs_every = v == "every";
    if (k == "--mode") mode = v;
    if (k == "--snap") snap_mode = std::stoi(v);
  }
  std::vector<std::uint64_t> init_keys;
  {
    std::stringstream ss(init_s);
    std::string t;
    while (std::getline(ss, t, ','))
      if (!t.empty()) init_keys.push_back(std::stoull(t, nullptr, 16));
  }
  const auto progs = parse_progs(prog_s);
  unsigned long execs = 0, nproblems = 0;

  auto one = [&](const dsched::controller::chooser& ch) {
    exec_state st;
    st.held.resize(progs.size() + 1);
    // observe allocations from the very beginning (set-up included)
    dsched::result setup_log;
    static dsched::result* setup_ptr = nullptr;
    setup_ptr = &setup_log;
    vk::obs_hook.store(+[](unsigned kind, const void* addr, std::uint64_t a, std::uint64_t b, std::uint64_t c) {
      if (kind == vk::mem_alloc || kind == vk::mem_free) setup_ptr->log.push_back(dsched::event{-1, kind, addr, a, b, c, 0});
    });
    st.db = std::make_unique<db_t>();
    for (auto k : init_keys) {
      const std::uint64_t v = value_of(k, 0);
      (void)st.db->insert(k, unodb::value_view{reinterpret_cast<const std::byte*>(&v), sizeof v});
    }
    unodb::this_thread().quiescent();
    unodb::this_thread().quiescent();
    // workers are registered here (uncontrolled), the main thread leaves QSBR for the duration of the execution
    std::vector<std::unique_ptr<unodb::qsbr_per_thread>> insts;
    for (std::size_t t = 0; t < progs.size(); ++t) insts.push_back(std::make_unique<unodb::qsbr_per_thread>());
    snap_state snap;
    if (snap_mode != 0) {
      // the initial tree, before any controlled thread exists (no scheduler hook is installed yet)
      snap.mode = snap_mode;
      snap.db = st.db.get();
      snap.clock = &st.clock;
      snap.snaps.emplace_back(st.clock.fetch_add(1), snapshot_of(*st.db));
    }
    unodb::this_thread().qsbr_pause();
    vk::obs_hook.store(nullptr);

    dsched::controller ctl(100000);
    snap.ctl = &ctl;
    std::vector<std::function<void()>> bodies;
    for (std::size_t t = 0; t < progs.size(); ++t)
      bodies.push_back([&, t]() { run_thread(st, progs[t], static_cast<int>(t), qs_every); });
    auto res = ctl.run(
        bodies, ch,
        [&insts, n = std::size_t{0}](std::function<void()> f) mutable {
          auto* inst = insts[n++].release();
          return std::thread([f, inst]() {
            unodb::qsbr_per_thread::current_thread_instance.reset(inst);
            f();
            unodb::qsbr_per_thread::current_thread_instance.reset();
          });
        },
        [&snap, snap_mode]() {
          if (snap_mode == 0) return;
          // wrap the controller's hooks (see "writer-quiescent snapshots"); run() removes the hooks at its end
          inner_sched = vk::sched_hook.load();
          inner_obs = vk::obs_hook.load();
          g_snap = &snap;
          vk::sched_hook.store(&snap_sched);
          vk::obs_hook.store(&snap_obs);
        });
    g_snap = nullptr;
    ++execs;
    if (snap_mode != 0 && !snap.off && (snap.guards != 0 || snap.negative) && !res.deadlock && !res.budget_exceeded)
      st.problems.push_back("C14: write guards taken and released do not balance at the end of the execution (" +
                            std::to_string(snap.guards) + " still held)");
    if (res.deadlock) st.problems.push_back("C14: deadlock - every unfinished thread waits in a spin loop");
    if (res.budget_exceeded) st.problems.push_back("C14: step budget exceeded (livelock)");
    // drain + post-execution sweep by a single controlled thread with a step budget (C14: no lock left held)
    unodb::this_thread().qsbr_resume();
    dsched::result sweep;
    if (!res.deadlock && !res.budget_exceeded) {
      dsched::controller ctl2(200000);
      std::vector<std::function<void()>> sb;
      auto* dbp = st.db.get();
      std::set<std::uint64_t> keys(init_keys.begin(), init_keys.end());
      for (auto& c : st.calls) keys.insert(c.key);
      sb.push_back([dbp, keys]() {
        for (auto k : keys) {
          (void)dbp->get(k);
          const std::uint64_t probe = k ^ 0x80U;
          if (keys.count(probe) == 0) {
            const std::uint64_t v = 7;
            if (dbp->insert(probe, unodb::value_view{reinterpret_cast<const std::byte*>(&v), sizeof v})) (void)dbp->remove(probe);
          }
        }
        dbp->scan([](const auto&) { return false; }, true);
        unodb::this_thread().quiescent();
        unodb::this_thread().quiescent();
        unodb::this_thread().quiescent();
      });
      // the sweep thread shares the main thread's QSBR registration: run it on this thread's instance
      auto* main_inst = unodb::qsbr_per_thread::current_thread_instance.release();
      sweep = ctl2.run(sb, [](const dsched::decision& d, unsigned long) { return d.enabled[0]; },
                       [main_inst](std::function<void()> f) {
                         return std::thread([f, main_inst]() {
                           unodb::qsbr_per_thread::current_thread_instance.reset(main_inst);
                           f();
                           (void)unodb::qsbr_per_thread::current_thread_instance.release();
                         });
                       });
      unodb::qsbr_per_thread::current_thread_instance.reset(main_inst);
      if (sweep.deadlock || sweep.budget_exceeded)
        st.problems.push_back("C14: the single-threaded sweep after the execution does not terminate (a lock was left held)");
    }
    // analysis over set-up + execution + sweep logs
    dsched::result all;
    all.log = setup_log.log;
    all.log.insert(all.log.end(), res.log.begin(), res.log.end());
    all.log.insert(all.log.end(), sweep.log.begin(), sweep.log.end());
    const bool want_trace = sample != 0 && (execs % sample == 1 || sample == 1);
    std::vector<std::string> trace;
    if (!sweep.deadlock && !sweep.budget_exceeded && !res.deadlock && !res.budget_exceeded)
      analyse(all, st, st.db.get(), &trace);
#ifdef UNODB_DETAIL_WITH_STATS
    // C10 after a concurrent phase, all threads quiesced: node counts and memory use are those of a sequential index
    // with the same content; every growing / shrinking counter movement corresponds to a node created or replaced
    if (!sweep.deadlock && !sweep.budget_exceeded && !res.deadlock && !res.budget_exceeded) {
      unodb::db<std::uint64_t, unodb::value_view> ref;
      std::vector<std::pair<std::uint64_t, std::vector<std::byte>>> content;
      st.db->scan([&](const auto& v) {
        auto val = v.get_value();
        content.emplace_back(key_of_view(v.get_key()), std::vector<std::byte>(val.begin().get(), val.begin().get() + val.size()));
        return false;
      });
      for (auto& kv : content) (void)ref.insert(kv.first, unodb::value_view{kv.second.data(), kv.second.size()});
      const auto nc = st.db->get_node_counts();
      const auto rc = ref.get_node_counts();
      bool same = true;
      for (std::size_t i = 0; i < nc.size(); ++i) same = same && nc[i] == rc[i];
      if (!same) st.problems.push_back("C10: node counts after the concurrent phase differ from those of a sequential index with the same content");
      const auto gc = st.db->get_growing_inode_counts();
      const auto sc = st.db->get_shrinking_inode_counts();
      for (std::size_t c = 0; c < 4; ++c) {
        const long long made = static_cast<long long>(gc[c]) + (c + 1 < 4 ? static_cast<long long>(sc[c + 1]) : 0);
        const long long gone = static_cast<long long>(sc[c]) + (c + 1 < 4 ? static_cast<long long>(gc[c + 1]) : 0);
        if (made - gone != static_cast<long long>(nc[c + 1]))
          st.problems.push_back("C10: growing/shrinking counters of inode class " + std::to_string(c) +
                                " moved without a node being created or replaced (created " + std::to_string(made) + ", replaced " +
                                std::to_string(gone) + ", present " + std::to_string(nc[c + 1]) + ")");
      }
      unodb::this_thread().quiescent();
    }
#endif
    const bool bad = !st.problems.empty();
    if (bad) ++nproblems;
    std::string line = "X";
    for (auto& d : res.decisions) line += " " + std::to_string(d.chosen);
    std::puts(line.c_str());
    for (auto k : init_keys) std::printf("J %llu %llu\n", static_cast<unsigned long long>(k), static_cast<unsigned long long>(value_of(k, 0)));
    for (auto& c : st.calls)
      std::printf("C %d %c %llu %llu %d %llu %lu %lu\n", c.tid, c.kind, static_cast<unsigned long long>(c.key),
                  static_cast<unsigned long long>(c.val), c.ok ? 1 : 0, static_cast<unsigned long long>(c.got), c.inv, c.ret);
    for (auto& s : st.scans) {
      std::string l = "V " + std::to_string(s.tid) + " " + std::to_string(s.inv) + " " + std::to_string(s.ret) + " " + s.kind + " " +
                      std::to_string(s.a) + " " + std::to_string(s.b) + " " + (s.fwd ? "f" : "r") + " " + (s.halted ? "h" : "c") + " :";
      for (std::size_t i = 0; i < s.seen.size(); ++i)
        l += " " + std::to_string(s.seen[i].first) + "=" + std::to_string(s.seen[i].second) + "@" + std::to_string(s.stamps[i]);
      std::puts(l.c_str());
    }
    if (snap_mode != 0) {
      for (auto& sn : snap.snaps) std::printf("SNAP %lu %s\n", sn.first, sn.second.c_str());
      std::printf("SNAPSTAT moments=%lu dumps=%zu complete=%d\n", snap.moments, snap.snaps.size(), snap.off ? 0 : 1);
    }
    if (want_trace || bad)
      for (auto& t : trace) std::puts(t.c_str());
    for (auto& p : st.problems) std::printf("P %s\n", p.c_str());
    std::puts("Y");
    // tear down: the index must be destroyed by a registered thread; then drain
    st.db.reset();
    unodb::this_thread().quiescent();
    unodb::this_thread().quiescent();
    return res.decisions;
  };

  if (!replay.empty()) {
    dsched::prefix_chooser pc;
    std::stringstream ss(replay);
    std::string c;
    while (std::getline(ss, c, ',')) pc.prefix.push_back(std::stoi(c));
    sample = 1;
    one(pc);
  } else {
    dsched::explore_bounded(bound, max_execs, [&](const std::vector<int>& pre) {
      dsched::prefix_chooser pc{pre};
      return one(pc);
    });
    for (unsigned long i = 0; i < nrandom; ++i) {
      dsched::random_chooser rc{dsched::rng64(seed * 1000003ULL + i), 150};
      one(std::ref(rc));
    }
  }
  std::printf("S execs=%lu problems=%lu\n", execs, nproblems);
  return 0;
}
